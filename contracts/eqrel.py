"""Verus template for the union-find behind the eqrel provider (C10): ascent_byods_rels::union_find::EqRel.

Abstract view: `related(a, b)` = both elements are known and their class ids have the same root of the subsumption forest.
Representation invariant `wf`: the subsumption map is acyclic (witnessed by a rank function) and in bounds, every known
element sits in the hash set of the root of its class id, and every member of a set is a known element rooted there.
THE CONTRACT of add(x, y), taken from the property ("behaves as its explicit equivalence closure"): afterwards two elements
are related exactly when they were before or both belong to {x, y} + the old classes of x and y; the result is true exactly
when x and y were not related before.  `lemma_add_is_least` shows that this is the least equivalence containing the old
relation and (x, y).
"""

PRELUDE = r'''#![allow(unused_imports, dead_code, unused_variables, unused_mut, non_snake_case, unused_parens, unused_braces)]
#![feature(allocator_api)]
use vstd::prelude::*;
use vstd::std_specs::hash::*;
use vstd::std_specs::iter::IteratorSpec;
use std::collections::{HashMap, HashSet};
use std::collections::hash_set::Iter as HashSetIter;
use std::hash::{BuildHasher, BuildHasherDefault, Hash, Hasher};
use std::rc::Rc;

// ---- stand-ins for types of dependencies that cannot be linked into a single-file Verus run (TRUSTED) ----
/// stand-in for rustc_hash::FxHasher: only its identity as a hasher type matters to the contracts
pub struct FxHasher;
impl Default for FxHasher { fn default() -> Self { FxHasher } }
impl Hasher for FxHasher { fn finish(&self) -> u64 { 0 } fn write(&mut self, _b: &[u8]) {} }
// hashbrown::{HashMap, HashSet} are modelled by std::collections::{HashMap, HashSet} (TRUSTED: same behaviour on
// get / insert / contains / len / extend / from_iter / iter); the `use hashbrown::..` lines of the file are not copied.

verus! {

#[verifier::external_body]
#[verifier::external_type_specification]
pub struct ExFxHasher(FxHasher);

#[verifier::external_body]
#[verifier::reject_recursive_types(H)]
#[verifier::external_type_specification]
pub struct ExBuildHasherDefault<H>(std::hash::BuildHasherDefault<H>);

pub mod trusted {
    use super::*;
    // ASSUMED: BuildHasherDefault<FxHasher> builds hashers that make HashMap/HashSet behave as maps/sets
    pub broadcast proof fn axiom_fx_builds_valid_hashers()
        ensures #[trigger] builds_valid_hashers::<BuildHasherDefault<FxHasher>>()
    { admit(); }
    /// the value Default::default() returns
    pub uninterp spec fn default_value<V>() -> V;
    // ASSUMED: HashSet::default() is the empty set
    pub broadcast proof fn axiom_hashset_default_is_empty<T, S>()
        ensures (#[trigger] default_value::<HashSet<T, S>>())@ == Set::<T>::empty()
    { admit(); }
    /// the elements an IntoIterator argument yields (used by the spec of Extend::extend)
    pub uninterp spec fn spec_items<I: IntoIterator>(i: I) -> Set<I::Item>;
    // ASSUMED: a HashSet yields exactly its elements
    pub broadcast proof fn axiom_hashset_items<T, S>(s: HashSet<T, S>)
        ensures #[trigger] spec_items::<HashSet<T, S>>(s) == s@
    { admit(); }
    // ASSUMED: an array, consumed as an iterator, yields its elements in order
    pub broadcast proof fn axiom_array_into_iter<T, const N: usize>(a: [T; N])
        ensures #[trigger] vstd::std_specs::iter::into_iter_remaining::<T, [T; N]>(a) == a@
    { admit(); }
    // ASSUMED: HashSet::from_iter collects exactly the yielded elements
    pub broadcast proof fn axiom_hashset_from_iter<T: Eq + Hash, S: std::hash::BuildHasher + Default>(q: Seq<T>, r: HashSet<T, S>)
        requires #[trigger] <HashSet<T, S> as vstd::std_specs::iter::FromIteratorSpec<T>>::from_iter_ensures(q, r)
        ensures r@ == q.to_set()
    { admit(); }
}
use trusted::{default_value, spec_items};
broadcast use {trusted::axiom_fx_builds_valid_hashers, trusted::axiom_hashset_default_is_empty, trusted::axiom_hashset_items,
               trusted::axiom_array_into_iter, trusted::axiom_hashset_from_iter};

// ASSUMED contract of <HashSet as Extend>::extend: set union with the yielded elements
pub assume_specification<T: Eq + Hash, S: std::hash::BuildHasher, A: std::alloc::Allocator, I: IntoIterator<Item = T>> [<HashSet<T, S, A> as Extend<T>>::extend::<I>] (s: &mut HashSet<T, S, A>, iter: I)
    ensures final(s)@ == old(s)@.union(spec_items::<I>(iter)),
;
// ASSUMED contract of Entry::or_default (mirrors vstd's Entry::or_insert with the default value; used by the TrRelUnionFind unit)
pub assume_specification<'a, K, V: Default> [std::collections::hash_map::Entry::<'a, K, V>::or_default] (e: std::collections::hash_map::Entry<'a, K, V>) -> (r: &'a mut V)
    ensures
        *r == (match e.value() { Some(v) => v, None => default_value::<V>() }),
        e.final_value() == Some(*final(r)),
;
// ASSUMED contract of core::mem::take
pub assume_specification<T: Default> [core::mem::take::<T>] (dest: &mut T) -> (r: T)
    ensures r == *old(dest), *final(dest) == default_value::<T>(),
;
// ASSUMED contract of Option::is_some_and
pub assume_specification<T, F: FnOnce(T) -> bool> [Option::<T>::is_some_and] (o: Option<T>, f: F) -> (r: bool)
    requires o is Some ==> f.requires((o->0,)),
    ensures match o { None => !r, Some(v) => f.ensures((v,), r) },
;
'''

FOREST = r'''// ---------------- the subsumption forest ----------------
pub open spec fn rank_ok(subs: Map<usize, usize>, rk: spec_fn(usize) -> nat) -> bool {
    forall|i: usize| #[trigger] subs.contains_key(i) ==> rk(subs[i]) < rk(i)
}
/// no cycle among the subsumptions: some rank strictly decreases along every edge
pub open spec fn acyclic(subs: Map<usize, usize>) -> bool {
    exists|rk: spec_fn(usize) -> nat| rank_ok(subs, rk)
}
pub open spec fn the_rank(subs: Map<usize, usize>) -> spec_fn(usize) -> nat {
    choose|rk: spec_fn(usize) -> nat| rank_ok(subs, rk)
}
/// the dominant id reached from i
pub open spec fn root(subs: Map<usize, usize>, i: usize) -> usize
    decreases the_rank(subs)(i) when acyclic(subs)
{
    if subs.contains_key(i) { root(subs, subs[i]) } else { i }
}
pub open spec fn subs_in_bounds(subs: Map<usize, usize>, n: nat) -> bool {
    forall|i: usize| #[trigger] subs.contains_key(i) ==> i < n && subs[i] < n
}

pub proof fn lemma_empty_is_acyclic()
    ensures acyclic(Map::<usize, usize>::empty()),
{
    let rk = |i: usize| 0nat;
    assert(rank_ok(Map::<usize, usize>::empty(), rk));
}
pub proof fn lemma_root_is_root(subs: Map<usize, usize>, i: usize)
    requires acyclic(subs),
    ensures !subs.contains_key(root(subs, i)),
    decreases the_rank(subs)(i),
{
    if subs.contains_key(i) { lemma_root_is_root(subs, subs[i]); }
}
pub proof fn lemma_root_in_bounds(subs: Map<usize, usize>, n: nat, i: usize)
    requires acyclic(subs), subs_in_bounds(subs, n), i < n,
    ensures root(subs, i) < n,
    decreases the_rank(subs)(i),
{
    if subs.contains_key(i) { lemma_root_in_bounds(subs, n, subs[i]); }
}
pub proof fn lemma_rank_root_le(subs: Map<usize, usize>, i: usize)
    requires acyclic(subs),
    ensures the_rank(subs)(root(subs, i)) <= the_rank(subs)(i),
            subs.contains_key(i) ==> the_rank(subs)(root(subs, i)) < the_rank(subs)(i),
    decreases the_rank(subs)(i),
{
    if subs.contains_key(i) { lemma_rank_root_le(subs, subs[i]); }
}

/// path compression: redirecting a non-root id to its root changes no root
pub proof fn lemma_compress(subs: Map<usize, usize>, id: usize)
    requires acyclic(subs), subs.contains_key(id),
    ensures acyclic(subs.insert(id, root(subs, id))),
            forall|i: usize| #![trigger root(subs.insert(id, root(subs, id)), i)] #![trigger root(subs, i)] root(subs.insert(id, root(subs, id)), i) == root(subs, i),
{
    let d = root(subs, id);
    let s2 = subs.insert(id, d);
    let rk = the_rank(subs);
    lemma_rank_root_le(subs, id);
    lemma_root_is_root(subs, id);
    assert(rank_ok(s2, rk)) by {
        assert forall|i: usize| #[trigger] s2.contains_key(i) implies rk(s2[i]) < rk(i) by {
            if i != id { assert(subs.contains_key(i)); }
        }
    }
    assert forall|i: usize| root(s2, i) == root(subs, i) by { lemma_compress_roots(subs, id, i); }
}
pub proof fn lemma_compress_roots(subs: Map<usize, usize>, id: usize, i: usize)
    requires acyclic(subs), subs.contains_key(id), acyclic(subs.insert(id, root(subs, id))),
    ensures root(subs.insert(id, root(subs, id)), i) == root(subs, i),
    decreases the_rank(subs)(i),
{
    let d = root(subs, id);
    let s2 = subs.insert(id, d);
    lemma_root_is_root(subs, id);
    if i == id {
        assert(s2[id] == d);
        assert(!s2.contains_key(d));
        assert(root(s2, d) == d);
        assert(root(s2, id) == root(s2, d));
    } else if subs.contains_key(i) {
        assert(s2.contains_key(i) && s2[i] == subs[i]);
        lemma_compress_roots(subs, id, subs[i]);
    } else {
        assert(!s2.contains_key(i));
    }
}

/// linking one root under another: exactly the class of y moves to x
pub proof fn lemma_link(subs: Map<usize, usize>, y: usize, x: usize)
    requires acyclic(subs), !subs.contains_key(y), !subs.contains_key(x), x != y,
    ensures acyclic(subs.insert(y, x)),
            forall|i: usize| #![trigger root(subs.insert(y, x), i)] #![trigger root(subs, i)] root(subs.insert(y, x), i) == (if root(subs, i) == y { x } else { root(subs, i) }),
{
    let s2 = subs.insert(y, x);
    let rk = the_rank(subs);
    let rk2 = |i: usize| if root(subs, i) == y { (rk(i) + rk(x) + 1) as nat } else { rk(i) };
    assert(rank_ok(s2, rk2)) by {
        assert forall|i: usize| #[trigger] s2.contains_key(i) implies rk2(s2[i]) < rk2(i) by {
            if i == y {
                assert(root(subs, y) == y);
                assert(root(subs, x) == x);
            } else {
                assert(subs.contains_key(i));
                assert(root(subs, i) == root(subs, subs[i]));
            }
        }
    }
    assert forall|i: usize| root(s2, i) == (if root(subs, i) == y { x } else { root(subs, i) }) by { lemma_link_roots(subs, y, x, i); }
}
pub proof fn lemma_link_roots(subs: Map<usize, usize>, y: usize, x: usize, i: usize)
    requires acyclic(subs), !subs.contains_key(y), !subs.contains_key(x), x != y, acyclic(subs.insert(y, x)),
    ensures root(subs.insert(y, x), i) == (if root(subs, i) == y { x } else { root(subs, i) }),
    decreases the_rank(subs)(i),
{
    let s2 = subs.insert(y, x);
    if i == y {
        assert(s2[y] == x);
        assert(!s2.contains_key(x));
        assert(root(s2, x) == x);
        assert(root(s2, y) == root(s2, x));
        assert(root(subs, y) == y);
    } else if subs.contains_key(i) {
        assert(s2.contains_key(i) && s2[i] == subs[i]);
        lemma_link_roots(subs, y, x, subs[i]);
    } else {
        assert(!s2.contains_key(i));
        assert(root(subs, i) == i);
    }
}

'''

TEMPLATE = PRELUDE + r'''
//@type byods_src - | EqRel | pubfields | noderive

''' + FOREST + r'''//@fn byods_src - | merge_sets |
    requires obeys_key_model::<T>(), builds_valid_hashers::<S>(),
    ensures final(set1)@ == old(set1)@.union(set2@),
//@ghost start
   let ghost s2_0 = set2@;
//@ghost after-text set1.extend(set2);
   assert(set1@ =~= old(set1)@.union(s2_0));
//@end

//@impl byods_src - | impl<T: Clone + Hash + Eq> EqRel<T>
   pub open spec fn subs(&self) -> Map<usize, usize> { self.set_subsumptions@ }
   pub open spec fn ids(&self) -> Map<T, usize> { self.elem_ids@ }
   pub open spec fn wf_subs(&self) -> bool {
       &&& acyclic(self.subs())
       &&& subs_in_bounds(self.subs(), self.sets.len() as nat)
   }
   /// representation invariant
   pub open spec fn wf(&self) -> bool {
       &&& self.wf_subs()
       &&& forall|x: T| #[trigger] self.ids().contains_key(x) ==> self.ids()[x] < self.sets.len()
       &&& forall|x: T| #[trigger] self.ids().contains_key(x) ==> self.sets[root(self.subs(), self.ids()[x]) as int]@.contains(x)
       &&& forall|i: int, x: T| 0 <= i < self.sets.len() && #[trigger] self.sets[i]@.contains(x) ==> self.ids().contains_key(x) && root(self.subs(), self.ids()[x]) == i
   }
   /// THE ABSTRACT VIEW: the relation the structure represents
   pub open spec fn related(&self, a: T, b: T) -> bool {
       self.ids().contains_key(a) && self.ids().contains_key(b) && root(self.subs(), self.ids()[a]) == root(self.subs(), self.ids()[b])
   }
   /// T::clone returns an equal value (hypothesis on the element type)
   pub open spec fn clone_is_identity() -> bool {
       forall|a: T, b: T| #[trigger] call_ensures(T::clone, (&a,), b) ==> a == b
   }
   /// a is x itself or already related to x
   pub open spec fn lnk(&self, a: T, x: T) -> bool { a == x || self.related(a, x) }
   /// a ends up in the class that add(x, y) forms
   pub open spec fn joins(&self, a: T, x: T, y: T) -> bool { self.lnk(a, x) || self.lnk(a, y) }

   /// the empty structure satisfies the invariant and relates nothing (base case of every history)
   pub proof fn lemma_empty_wf(&self)
       requires self.sets.len() == 0, self.elem_ids@ == Map::<T, usize>::empty(), self.set_subsumptions@ == Map::<usize, usize>::empty(),
       ensures self.wf(), forall|a: T, b: T| !self.related(a, b),
   {
       lemma_empty_is_acyclic();
   }
   /// related is an equivalence on the known elements
   pub proof fn lemma_related_is_equivalence(&self)
       ensures forall|a: T| #[trigger] self.ids().contains_key(a) ==> self.related(a, a),
               forall|a: T, b: T| #[trigger] self.related(a, b) ==> self.related(b, a),
               forall|a: T, b: T, c: T| #[trigger] self.related(a, b) && #[trigger] self.related(b, c) ==> self.related(a, c),
   {
   }
   /// the relation promised by add(x, y) is the LEAST equivalence containing the old relation and the pair (x, y):
   /// any symmetric, transitive E that contains the old relation, (x, y), (x, x) and (y, y) contains it
   pub proof fn lemma_add_is_least(&self, x: T, y: T, e: spec_fn(T, T) -> bool)
       requires forall|a: T, b: T| #[trigger] e(a, b) ==> e(b, a),
                forall|a: T, b: T, c: T| #[trigger] e(a, b) && #[trigger] e(b, c) ==> e(a, c),
                forall|a: T, b: T| #[trigger] self.related(a, b) ==> e(a, b),
                e(x, y), e(x, x), e(y, y),
       ensures forall|a: T, b: T| (self.related(a, b) || (#[trigger] self.joins(a, x, y) && #[trigger] self.joins(b, x, y))) ==> e(a, b),
   {
       assert forall|a: T| #[trigger] self.joins(a, x, y) implies e(a, x) && e(a, y) by {
           if self.lnk(a, x) {
               if a != x { assert(self.related(a, x)); }
               assert(e(a, x));
               assert(e(a, x) && e(x, y));
           } else {
               if a != y { assert(self.related(a, y)); }
               assert(e(a, y));
               assert(e(y, x));
               assert(e(a, y) && e(y, x));
           }
       }
       assert forall|a: T, b: T| (self.related(a, b) || (#[trigger] self.joins(a, x, y) && #[trigger] self.joins(b, x, y))) implies e(a, b) by {
           if !self.related(a, b) {
               assert(e(a, x) && e(b, x));
               assert(e(x, b));
               assert(e(a, x) && e(x, b));
           }
       }
   }

//@fn get_dominant_id | r
       requires self.wf_subs(),
       ensures r == root(self.subs(), id),
       decreases the_rank(self.subs())(id),
//@fn elem_set | r
       requires self.wf(), obeys_key_model::<T>(),
       ensures r == (if self.ids().contains_key(*elem) { Some(root(self.subs(), self.ids()[*elem])) } else { None }),
//@closure 1 | id: &usize | r: usize
       ensures r == root(self.subs(), *id)
//@fn get_dominant_id_update | r
       requires old(self).wf_subs(),
       ensures final(self).wf_subs(), r == root(old(self).subs(), id),
               forall|i: usize| #![trigger root(final(self).subs(), i)] #![trigger root(old(self).subs(), i)] root(final(self).subs(), i) == root(old(self).subs(), i),
               final(self).sets == old(self).sets, final(self).elem_ids == old(self).elem_ids, final(self).ids() == old(self).ids(),
               final(self).subs().dom() =~= old(self).subs().dom(),
       decreases the_rank(old(self).subs())(id),
//@ghost after-text if dom_id != parent_id {
               proof {
                   assert(self.subs().contains_key(id)) by { assert(old(self).subs().dom().contains(id)); }
                   lemma_compress(self.subs(), id);
                   lemma_root_in_bounds(self.subs(), self.sets.len() as nat, id);
               }
//@fn elem_set_update | r
       requires old(self).wf(), obeys_key_model::<T>(),
       ensures final(self).wf(),
               r == (if old(self).ids().contains_key(*elem) { Some(root(old(self).subs(), old(self).ids()[*elem])) } else { None }),
               forall|i: usize| #![trigger root(final(self).subs(), i)] #![trigger root(old(self).subs(), i)] root(final(self).subs(), i) == root(old(self).subs(), i),
               final(self).sets == old(self).sets, final(self).elem_ids == old(self).elem_ids, final(self).ids() == old(self).ids(),
//@fn add | r
       requires old(self).wf(), obeys_key_model::<T>(), Self::clone_is_identity(), old(self).sets.len() < usize::MAX,
       ensures final(self).wf(),
               r == !old(self).related(x, y),
               forall|a: T, b: T| #![trigger final(self).related(a, b)] #![trigger old(self).related(a, b)]
                   final(self).related(a, b) <==> (old(self).related(a, b) || (old(self).joins(a, x, y) && old(self).joins(b, x, y))),
//@ghost after-text let y_set = self.elem_set_update(&y);
      let ghost mid = *self;
      proof {
          if mid.ids().contains_key(x) { lemma_root_in_bounds(mid.subs(), mid.sets.len() as nat, mid.ids()[x]); lemma_root_is_root(mid.subs(), mid.ids()[x]); }
          if mid.ids().contains_key(y) { lemma_root_in_bounds(mid.subs(), mid.sets.len() as nat, mid.ids()[y]); lemma_root_is_root(mid.subs(), mid.ids()[y]); }
      }
//@ghost after-text self.elem_ids.insert(y.clone(), id);
            proof {
                assert(self.subs() == mid.subs());
                assert(self.sets.len() == mid.sets.len() + 1);
                assert(forall|i: int| 0 <= i < mid.sets.len() ==> self.sets[i] == mid.sets[i]);
                assert(self.sets[id as int]@ =~= set![x, y]);
                assert(self.ids() == mid.ids().insert(x, id).insert(y, id));
                assert(!mid.subs().contains_key(id));
                assert(root(mid.subs(), id) == id);
                assert forall|z: T| #[trigger] mid.ids().contains_key(z) implies root(mid.subs(), mid.ids()[z]) < mid.sets.len() by {
                    lemma_root_in_bounds(mid.subs(), mid.sets.len() as nat, mid.ids()[z]);
                }
                assert(self.wf());
                assert forall|a: T, b: T| self.related(a, b) <==> (old(self).related(a, b) || (old(self).joins(a, x, y) && old(self).joins(b, x, y))) by {
                    assert(!old(self).ids().contains_key(x) && !old(self).ids().contains_key(y));
                }
            }
//@ghost after-text self.elem_ids.insert(x, y_set);
            proof {
                assert(self.subs() == mid.subs());
                assert(self.sets[y_set as int]@ == mid.sets[y_set as int]@.insert(x));
                assert(forall|i: int| 0 <= i < self.sets.len() && i != y_set ==> self.sets[i] == mid.sets[i]);
                assert(self.ids() == mid.ids().insert(x, y_set));
                assert(self.wf());
                assert(root(mid.subs(), y_set) == y_set);
                assert forall|a: T, b: T| self.related(a, b) <==> (old(self).related(a, b) || (old(self).joins(a, x, y) && old(self).joins(b, x, y))) by {
                    assert(!old(self).ids().contains_key(x));
                    assert(old(self).ids().contains_key(y));
                }
            }
//@ghost after-text self.elem_ids.insert(y, x_set);
            proof {
                assert(self.subs() == mid.subs());
                assert(self.sets[x_set as int]@ == mid.sets[x_set as int]@.insert(y));
                assert(forall|i: int| 0 <= i < self.sets.len() && i != x_set ==> self.sets[i] == mid.sets[i]);
                assert(self.ids() == mid.ids().insert(y, x_set));
                assert(self.wf());
                assert(root(mid.subs(), x_set) == x_set);
                assert forall|a: T, b: T| self.related(a, b) <==> (old(self).related(a, b) || (old(self).joins(a, x, y) && old(self).joins(b, x, y))) by {
                    assert(!old(self).ids().contains_key(y));
                    assert(old(self).ids().contains_key(x));
                }
            }
//@ghost after-text self.set_subsumptions.insert(y_set, x_set);
               proof {
                   lemma_link(mid.subs(), y_set, x_set);
                   assert(self.subs() == mid.subs().insert(y_set, x_set));
                   assert(self.ids() == mid.ids());
                   assert(self.sets.len() == mid.sets.len());
                   assert(self.sets[y_set as int]@ == Set::<T>::empty());
                   assert(self.sets[x_set as int]@ == mid.sets[x_set as int]@.union(mid.sets[y_set as int]@));
                   assert(forall|i: int| 0 <= i < self.sets.len() && i != x_set && i != y_set ==> self.sets[i] == mid.sets[i]);
                   assert(self.wf_subs());
                   assert(self.wf());
                   assert forall|a: T, b: T| self.related(a, b) <==> (old(self).related(a, b) || (old(self).joins(a, x, y) && old(self).joins(b, x, y))) by {
                       assert(old(self).ids().contains_key(x) && old(self).ids().contains_key(y));
                   }
               }
//@fn contains | r
       requires self.wf(), obeys_key_model::<T>(),
       ensures r == self.related(*x, *y),
//@ghost start
      proof {
          if self.ids().contains_key(*x) { lemma_root_in_bounds(self.subs(), self.sets.len() as nat, self.ids()[*x]); }
      }
//@closure 1 | set: usize | r: bool
       requires set < self.sets.len()
       ensures r == self.sets[set as int]@.contains(*y)
//@fn set_of | r
       requires self.wf(), obeys_key_model::<T>(),
       ensures r is Some <==> self.ids().contains_key(*x),
               // (which elements the returned hash-set iterator yields is not specified by this vstd; checked natively only)
//@ghost start
      proof {
          if self.ids().contains_key(*x) { lemma_root_in_bounds(self.subs(), self.sets.len() as nat, self.ids()[*x]); }
      }
//@drop c_set_of set_of_inc_x iter_all c_iter_all combine count_exact
//@end

// ---------------- the old / combined pair of one relation version (eqrel_ind.rs) ----------------
//@type byods_src - | EqRelIndCommon | pubfields | noderive

//@impl byods_src - | impl<T: Clone + Hash + Eq> EqRelIndCommon<T>
   pub open spec fn wf(&self) -> bool { self.old.wf() && self.combined.wf() }
   /// THE VIEW of a relation version: the pairs of `combined` that are not in `old` ("delta is read as combined minus old")
   pub open spec fn added(&self, a: T, b: T) -> bool { self.combined.related(a, b) && !self.old.related(a, b) }
//@fn added_contains | r
       requires self.wf(), obeys_key_model::<T>(),
       ensures r == self.added(*x, *y),
//@drop iter_all_added set_of_added count_exact
//@end

} // verus!

fn main() {}
'''


def template():
    return TEMPLATE
