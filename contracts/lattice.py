"""Template (contracts + splice directives) for the C16/C03 Verus unit over ascent_base::lattice.

Everything that is *code* comes from /repo through the //@ directives; this file only contributes
spec functions, law lemmas and the trait-level requires/ensures (the oracle, taken from the property
statement).  Arity families (ints, tuples, Product tuples) are generated here.
"""

INTS = ['i8', 'u8', 'i16', 'u16', 'i32', 'u32', 'i64', 'u64', 'i128', 'u128', 'isize', 'usize']
MAX_ARITY = 11

PRELUDE = r'''#![allow(unused_imports, dead_code, unused_variables, unused_mut, non_snake_case, unused_parens, unused_braces)]
use vstd::prelude::*;
use vstd::std_specs::cmp::{PartialEqSpec, PartialOrdSpec, OrdSpec};
use core::cmp::Ordering;
use std::cmp::Ordering::*;
use std::cmp::Reverse;

verus! {

pub open spec fn ord_le(o: Option<Ordering>) -> bool { o == Some(Ordering::Less) || o == Some(Ordering::Equal) }
pub open spec fn ord_ge(o: Option<Ordering>) -> bool { o == Some(Ordering::Greater) || o == Some(Ordering::Equal) }
pub open spec fn ord_eq(o: Option<Ordering>) -> bool { o == Some(Ordering::Equal) }

/// "T's Ord/PartialOrd/PartialEq implement one lawful total order that coincides with structural equality":
/// the hypothesis on the *parameter* type of OrdLattice<T> and of the tuple impls.
pub open spec fn total_order_wf<T: Ord>() -> bool {
    &&& T::obeys_cmp_spec() && T::obeys_partial_cmp_spec() && T::obeys_eq_spec()
    &&& forall|a: T, b: T| #[trigger] a.partial_cmp_spec(&b) == Some(a.cmp_spec(&b))
    &&& forall|a: T, b: T| (#[trigger] a.cmp_spec(&b) == Ordering::Equal) <==> a == b
    &&& forall|a: T, b: T| #[trigger] a.eq_spec(&b) <==> a == b
    &&& forall|a: T, b: T| (#[trigger] a.cmp_spec(&b) == Ordering::Less) <==> (b.cmp_spec(&a) == Ordering::Greater)
    &&& forall|a: T, b: T, c: T| (#[trigger] a.cmp_spec(&b) == Ordering::Less && #[trigger] b.cmp_spec(&c) == Ordering::Less) ==> a.cmp_spec(&c) == Ordering::Less
}

/// "T's PartialEq is structural equality" (hypothesis on the payload of ConstPropagation<T>).
pub open spec fn structural_eq_wf<T: PartialEq>() -> bool {
    &&& T::obeys_eq_spec()
    &&& forall|a: T, b: T| #[trigger] a.eq_spec(&b) <==> a == b
}

// ------------------------------------------------------------------------------------------------
// The oracle: the Lattice trait of /repo with the property statement as its contract.

//@trait ascent_base lattice | Lattice
    /// hypotheses on type parameters (true for closed types)
    spec fn lat_wf() -> bool;
    /// the abstract order, join and meet of the type, written from the mathematical definition
    spec fn lat_le(&self, other: &Self) -> bool;
    spec fn lat_join(self, other: Self) -> Self;
    spec fn lat_meet(self, other: Self) -> Self;

    proof fn law_order(a: Self, b: Self, c: Self)
        requires Self::lat_wf(),
        ensures
            a.lat_le(&a),
            a.lat_le(&b) && b.lat_le(&a) ==> a == b,
            a.lat_le(&b) && b.lat_le(&c) ==> a.lat_le(&c);
    proof fn law_join_lub(a: Self, b: Self, c: Self)
        requires Self::lat_wf(),
        ensures
            a.lat_le(&a.lat_join(b)),
            b.lat_le(&a.lat_join(b)),
            a.lat_le(&c) && b.lat_le(&c) ==> a.lat_join(b).lat_le(&c);
    proof fn law_meet_glb(a: Self, b: Self, c: Self)
        requires Self::lat_wf(),
        ensures
            a.lat_meet(b).lat_le(&a),
            a.lat_meet(b).lat_le(&b),
            c.lat_le(&a) && c.lat_le(&b) ==> c.lat_le(&a.lat_meet(b));
    /// the real partial_cmp is specified by partial_cmp_spec ...
    proof fn law_obeys()
        requires Self::lat_wf(),
        ensures Self::obeys_partial_cmp_spec();
    /// ... and the abstract order is the one that partial_cmp_spec describes
    proof fn law_ord_agrees(a: Self, b: Self)
        requires Self::lat_wf(),
        ensures
            a.lat_le(&b) <==> ord_le(a.partial_cmp_spec(&b)),
            a.partial_cmp_spec(&b) == Some(Ordering::Equal) <==> a == b,
            a.partial_cmp_spec(&b) == Some(Ordering::Greater) <==> (b.lat_le(&a) && a != b);
//@fn meet_mut | changed
        ensures
            Self::lat_wf() ==> *final(self) == old(self).lat_meet(other),
            Self::lat_wf() ==> changed == (*final(self) != *old(self)),
//@fn join_mut | changed
        ensures
            Self::lat_wf() ==> *final(self) == old(self).lat_join(other),
            Self::lat_wf() ==> changed == (*final(self) != *old(self)),
//@fn meet | r
        ensures
            Self::lat_wf() ==> r == self.lat_meet(other),
//@fn join | r
        ensures
            Self::lat_wf() ==> r == self.lat_join(other),
//@end

//@trait ascent_base lattice | BoundedLattice
//@fn bottom | b
        ensures
            Self::lat_wf() ==> forall|x: Self| #[trigger] b.lat_le(&x),
//@fn top | t
        ensures
            Self::lat_wf() ==> forall|x: Self| #[trigger] x.lat_le(&t),
//@end

// ------------------------------------------------------------------------------------------------
// Laws that follow for EVERY impl whose obligations discharge (proved once, from lub/glb + order).

pub proof fn derived_join_commutative<L: Lattice>(a: L, b: L)
    requires L::lat_wf(),
    ensures a.lat_join(b) == b.lat_join(a),
{
    L::law_join_lub(a, b, b.lat_join(a));
    L::law_join_lub(b, a, a.lat_join(b));
    L::law_order(a.lat_join(b), b.lat_join(a), a);
}

pub proof fn derived_meet_commutative<L: Lattice>(a: L, b: L)
    requires L::lat_wf(),
    ensures a.lat_meet(b) == b.lat_meet(a),
{
    L::law_meet_glb(a, b, b.lat_meet(a));
    L::law_meet_glb(b, a, a.lat_meet(b));
    L::law_order(a.lat_meet(b), b.lat_meet(a), a);
}

pub proof fn derived_join_idempotent<L: Lattice>(a: L)
    requires L::lat_wf(),
    ensures a.lat_join(a) == a,
{
    L::law_join_lub(a, a, a);
    L::law_order(a, a, a);
    L::law_order(a.lat_join(a), a, a);
}

pub proof fn derived_meet_idempotent<L: Lattice>(a: L)
    requires L::lat_wf(),
    ensures a.lat_meet(a) == a,
{
    L::law_meet_glb(a, a, a);
    L::law_order(a, a, a);
    L::law_order(a.lat_meet(a), a, a);
}

pub proof fn derived_join_associative<L: Lattice>(a: L, b: L, c: L)
    requires L::lat_wf(),
    ensures a.lat_join(b).lat_join(c) == a.lat_join(b.lat_join(c)),
{
    let l = a.lat_join(b).lat_join(c);
    let r = a.lat_join(b.lat_join(c));
    // l is an upper bound of a, b, c
    L::law_join_lub(a.lat_join(b), c, r);
    L::law_join_lub(a, b, r);
    L::law_join_lub(a, b.lat_join(c), l);
    L::law_join_lub(b, c, l);
    L::law_order(a, a.lat_join(b), l);
    L::law_order(b, a.lat_join(b), l);
    L::law_order(b, b.lat_join(c), r);
    L::law_order(c, b.lat_join(c), r);
    L::law_order(l, r, l);
}

pub proof fn derived_meet_associative<L: Lattice>(a: L, b: L, c: L)
    requires L::lat_wf(),
    ensures a.lat_meet(b).lat_meet(c) == a.lat_meet(b.lat_meet(c)),
{
    let l = a.lat_meet(b).lat_meet(c);
    let r = a.lat_meet(b.lat_meet(c));
    L::law_meet_glb(a.lat_meet(b), c, r);
    L::law_meet_glb(a, b, r);
    L::law_meet_glb(a, b.lat_meet(c), l);
    L::law_meet_glb(b, c, l);
    L::law_order(l, a.lat_meet(b), a);
    L::law_order(l, a.lat_meet(b), b);
    L::law_order(r, b.lat_meet(c), b);
    L::law_order(r, b.lat_meet(c), c);
    L::law_order(l, r, l);
}

pub proof fn derived_absorption<L: Lattice>(a: L, b: L)
    requires L::lat_wf(),
    ensures
        a.lat_join(a.lat_meet(b)) == a,
        a.lat_meet(a.lat_join(b)) == a,
{
    L::law_order(a, a, a);
    L::law_meet_glb(a, b, a);
    L::law_join_lub(a, a.lat_meet(b), a);
    L::law_order(a.lat_join(a.lat_meet(b)), a, a);
    L::law_join_lub(a, b, a);
    L::law_meet_glb(a, a.lat_join(b), a);
    L::law_order(a.lat_meet(a.lat_join(b)), a, a);
}

/// a <= b  iff  join(a,b) == b  iff  meet(a,b) == a, where <= is the type's real PartialOrd
pub proof fn derived_order_characterisation<L: Lattice>(a: L, b: L)
    requires L::lat_wf(),
    ensures
        ord_le(a.partial_cmp_spec(&b)) <==> a.lat_join(b) == b,
        ord_le(a.partial_cmp_spec(&b)) <==> a.lat_meet(b) == a,
{
    L::law_ord_agrees(a, b);
    L::law_order(a, b, a);
    L::law_order(b, b, b);
    L::law_order(a, a, a);
    L::law_join_lub(a, b, b);
    L::law_meet_glb(a, b, a);
    L::law_order(a.lat_join(b), b, b);
    L::law_order(a.lat_meet(b), a, a);
}

/// what C03 needs from join_mut: joining never goes down and a `false` return means "nothing new"
pub proof fn derived_join_mut_monotone<L: Lattice>(a: L, b: L)
    requires L::lat_wf(),
    ensures
        a.lat_le(&a.lat_join(b)),
        (a.lat_join(b) == a) <==> b.lat_le(&a),
{
    L::law_join_lub(a, b, a);
    L::law_order(a, a, a);
    L::law_order(a.lat_join(b), a, a);
}
'''


def ints():
    out = []
    for t in INTS:
        out.append('''
//@impl ascent_base lattice | impl Lattice for %(t)s
    open spec fn lat_wf() -> bool { true }
    open spec fn lat_le(&self, other: &Self) -> bool { *self <= *other }
    open spec fn lat_join(self, other: Self) -> Self { if self >= other { self } else { other } }
    open spec fn lat_meet(self, other: Self) -> Self { if self <= other { self } else { other } }
    proof fn law_order(a: Self, b: Self, c: Self) {}
    proof fn law_join_lub(a: Self, b: Self, c: Self) {}
    proof fn law_meet_glb(a: Self, b: Self, c: Self) {}
    proof fn law_ord_agrees(a: Self, b: Self) {}
    proof fn law_obeys() {}
//@end
//@impl ascent_base lattice | impl BoundedLattice for %(t)s
//@end
''' % {'t': t})
    return ''.join(out)


OPTION = r'''
//@impl ascent_base lattice | impl<T: Lattice> Lattice for Option<T>
    open spec fn lat_wf() -> bool { T::lat_wf() }
    open spec fn lat_le(&self, other: &Self) -> bool {
        match (*self, *other) { (None, _) => true, (Some(_), None) => false, (Some(x), Some(y)) => x.lat_le(&y) }
    }
    open spec fn lat_join(self, other: Self) -> Self {
        match (self, other) { (None, o) => o, (s, None) => s, (Some(x), Some(y)) => Some(x.lat_join(y)) }
    }
    open spec fn lat_meet(self, other: Self) -> Self {
        match (self, other) { (None, _) => None, (_, None) => None, (Some(x), Some(y)) => Some(x.lat_meet(y)) }
    }
    proof fn law_order(a: Self, b: Self, c: Self) {
        match (a, b, c) { (Some(x), Some(y), Some(z)) => { T::law_order(x, y, z); }, _ => {} }
        match a { Some(x) => T::law_order(x, x, x), _ => {} }
        match (a, b) { (Some(x), Some(y)) => T::law_order(x, y, x), _ => {} }
    }
    proof fn law_join_lub(a: Self, b: Self, c: Self) {
        match (a, b, c) { (Some(x), Some(y), Some(z)) => { T::law_join_lub(x, y, z); }, _ => {} }
        match a { Some(x) => T::law_order(x, x, x), _ => {} }
        match b { Some(x) => T::law_order(x, x, x), _ => {} }
        match (a, b) { (Some(x), Some(y)) => T::law_join_lub(x, y, x), _ => {} }
    }
    proof fn law_meet_glb(a: Self, b: Self, c: Self) {
        match (a, b, c) { (Some(x), Some(y), Some(z)) => { T::law_meet_glb(x, y, z); }, _ => {} }
        match (a, b) { (Some(x), Some(y)) => T::law_meet_glb(x, y, x), _ => {} }
    }
    proof fn law_ord_agrees(a: Self, b: Self) {
        match (a, b) { (Some(x), Some(y)) => T::law_ord_agrees(x, y), _ => {} }
    }
    proof fn law_obeys() { T::law_obeys(); }
//@end
//@impl ascent_base lattice | impl<T: BoundedLattice> BoundedLattice for Option<T>
//@end
'''

DUAL = r'''
//@type ascent_base lattice::dual | Dual
impl<T: PartialOrd> vstd::std_specs::cmp::PartialOrdSpecImpl for Dual<T> {
    open spec fn obeys_partial_cmp_spec() -> bool { T::obeys_partial_cmp_spec() }
    // the property: "Dual swaps <= and >="
    open spec fn partial_cmp_spec(&self, other: &Self) -> Option<Ordering> { other.0.partial_cmp_spec(&self.0) }
}
//@impl ascent_base lattice::dual | impl<T> PartialOrd for Dual<T> where T: PartialOrd
//@end
impl<T: Ord> vstd::std_specs::cmp::OrdSpecImpl for Dual<T> {
    open spec fn obeys_cmp_spec() -> bool { T::obeys_cmp_spec() }
    open spec fn cmp_spec(&self, other: &Self) -> Ordering { other.0.cmp_spec(&self.0) }
}
//@impl ascent_base lattice::dual | impl<T> Ord for Dual<T> where T: Ord
//@end
//@impl ascent_base lattice::dual | impl<T: Lattice> Lattice for Dual<T>
    open spec fn lat_wf() -> bool { T::lat_wf() }
    // the property: "Dual and Reverse swap the two operations"
    open spec fn lat_le(&self, other: &Self) -> bool { other.0.lat_le(&self.0) }
    open spec fn lat_join(self, other: Self) -> Self { Dual(self.0.lat_meet(other.0)) }
    open spec fn lat_meet(self, other: Self) -> Self { Dual(self.0.lat_join(other.0)) }
    proof fn law_order(a: Self, b: Self, c: Self) {
        T::law_order(a.0, a.0, a.0);
        T::law_order(b.0, a.0, b.0);
        T::law_order(c.0, b.0, a.0);
    }
    proof fn law_join_lub(a: Self, b: Self, c: Self) { T::law_meet_glb(a.0, b.0, c.0); }
    proof fn law_meet_glb(a: Self, b: Self, c: Self) { T::law_join_lub(a.0, b.0, c.0); }
    proof fn law_ord_agrees(a: Self, b: Self) { T::law_ord_agrees(b.0, a.0); T::law_ord_agrees(a.0, b.0); }
    proof fn law_obeys() { T::law_obeys(); }
//@end
//@impl ascent_base lattice::dual | impl<T: BoundedLattice> BoundedLattice for Dual<T>
//@end
'''

REVERSE = r'''
// core::cmp::Reverse<T> (a transparent std type).  ASSUMED (trusted, one line of std): its PartialOrd compares the
// wrapped values with the arguments swapped.
#[verifier::external_type_specification]
pub struct ExReverse<T>(core::cmp::Reverse<T>);
pub mod trusted_reverse {
    use super::*;
    pub broadcast proof fn axiom_reverse_partial_cmp<T: PartialOrd>(a: core::cmp::Reverse<T>, b: core::cmp::Reverse<T>)
        ensures #[trigger] a.partial_cmp_spec(&b) == b.0.partial_cmp_spec(&a.0)
    { admit(); }
    pub broadcast proof fn axiom_reverse_obeys<T: PartialOrd>()
        requires T::obeys_partial_cmp_spec(),
        ensures #[trigger] <core::cmp::Reverse<T> as PartialOrdSpec>::obeys_partial_cmp_spec()
    { admit(); }
}
broadcast use {trusted_reverse::axiom_reverse_partial_cmp, trusted_reverse::axiom_reverse_obeys};

//@impl ascent_base lattice | impl<T: Lattice> Lattice for Reverse<T>
    open spec fn lat_wf() -> bool { T::lat_wf() }
    // the property: "Dual and Reverse swap the two operations"
    open spec fn lat_le(&self, other: &Self) -> bool { other.0.lat_le(&self.0) }
    open spec fn lat_join(self, other: Self) -> Self { core::cmp::Reverse(self.0.lat_meet(other.0)) }
    open spec fn lat_meet(self, other: Self) -> Self { core::cmp::Reverse(self.0.lat_join(other.0)) }
    proof fn law_order(a: Self, b: Self, c: Self) {
        T::law_order(a.0, a.0, a.0);
        T::law_order(b.0, a.0, b.0);
        T::law_order(c.0, b.0, a.0);
    }
    proof fn law_join_lub(a: Self, b: Self, c: Self) { T::law_meet_glb(a.0, b.0, c.0); }
    proof fn law_meet_glb(a: Self, b: Self, c: Self) { T::law_join_lub(a.0, b.0, c.0); }
    proof fn law_ord_agrees(a: Self, b: Self) { T::law_ord_agrees(b.0, a.0); T::law_ord_agrees(a.0, b.0); }
    proof fn law_obeys() { T::law_obeys(); }
//@end
//@impl ascent_base lattice | impl<T: BoundedLattice> BoundedLattice for Reverse<T>
//@end
'''

ORD_LATTICE = r'''
//@type ascent_base lattice::ord_lattice | OrdLattice
impl<T: PartialOrd> vstd::std_specs::cmp::PartialOrdSpecImpl for OrdLattice<T> {
    open spec fn obeys_partial_cmp_spec() -> bool { T::obeys_partial_cmp_spec() }
    open spec fn partial_cmp_spec(&self, other: &Self) -> Option<Ordering> { self.0.partial_cmp_spec(&other.0) }
}
//@impl ascent_base lattice::ord_lattice | impl<T: ::core::cmp::PartialOrd> ::core::cmp::PartialOrd for OrdLattice<T>
//@end
impl<T: Ord> vstd::std_specs::cmp::OrdSpecImpl for OrdLattice<T> {
    open spec fn obeys_cmp_spec() -> bool { T::obeys_cmp_spec() }
    open spec fn cmp_spec(&self, other: &Self) -> Ordering { self.0.cmp_spec(&other.0) }
}
//@impl ascent_base lattice::ord_lattice | impl<T: ::core::cmp::Ord> ::core::cmp::Ord for OrdLattice<T>
//@end
//@impl ascent_base lattice::ord_lattice | impl<T: Ord> Lattice for OrdLattice<T>
    open spec fn lat_wf() -> bool { total_order_wf::<T>() }
    open spec fn lat_le(&self, other: &Self) -> bool { self.0.cmp_spec(&other.0) != Ordering::Greater }
    open spec fn lat_join(self, other: Self) -> Self { if self.0.cmp_spec(&other.0) == Ordering::Less { other } else { self } }
    open spec fn lat_meet(self, other: Self) -> Self { if self.0.cmp_spec(&other.0) == Ordering::Greater { other } else { self } }
    proof fn law_order(a: Self, b: Self, c: Self) {}
    proof fn law_join_lub(a: Self, b: Self, c: Self) {}
    proof fn law_meet_glb(a: Self, b: Self, c: Self) {}
    proof fn law_ord_agrees(a: Self, b: Self) {}
    proof fn law_obeys() {}
//@end
'''

UNIT = r'''
'''

ARRAY = r'''
// Product<[T; N]>: the product order of the real partial_cmp (loop over 0..N with early returns), for EVERY N and T.
// (meet_mut / join_mut iterate `iter_mut().zip(array)`, whose Zip/array::IntoIter ghost protocol this Verus version does not
// specify: they are decided by the Kani harnesses agrees_array0..4.)
pub open spec fn arr_cmp<T: PartialOrd, const N: usize>(a: [T; N], b: [T; N], n: int) -> Option<Ordering> {
    if forall|i: int| 0 <= i < n ==> ord_eq(#[trigger] a[i].partial_cmp_spec(&b[i])) { Some(Ordering::Equal) }
    else if forall|i: int| 0 <= i < n ==> ord_le(#[trigger] a[i].partial_cmp_spec(&b[i])) { Some(Ordering::Less) }
    else if forall|i: int| 0 <= i < n ==> ord_ge(#[trigger] a[i].partial_cmp_spec(&b[i])) { Some(Ordering::Greater) }
    else { None }
}
impl<const N: usize, T: PartialOrd> vstd::std_specs::cmp::PartialOrdSpecImpl for Product<[T; N]> {
    open spec fn obeys_partial_cmp_spec() -> bool { T::obeys_partial_cmp_spec() }
    // Equal iff all components Equal; Less iff all <=; Greater iff all >=; otherwise incomparable
    open spec fn partial_cmp_spec(&self, other: &Self) -> Option<Ordering> { arr_cmp(self.0, other.0, N as int) }
}
//@impl ascent_base lattice::product | impl<const N: usize, T: PartialOrd> PartialOrd for Product<[T; N]>
//@fn partial_cmp
//@loop 1
         invariant T::obeys_partial_cmp_spec() ==> Some(ord) == arr_cmp(self.0, other.0, i as int),
//@end
'''

CONSTPROP = r'''
//@type ascent_base lattice::constant_propagation | ConstPropagation
impl<T: PartialEq> vstd::std_specs::cmp::PartialOrdSpecImpl for ConstPropagation<T> {
    open spec fn obeys_partial_cmp_spec() -> bool { structural_eq_wf::<T>() }
    // the flat order: Bottom <= everything <= Top, constants comparable only when equal
    open spec fn partial_cmp_spec(&self, other: &Self) -> Option<Ordering> {
        if *self == *other { Some(Ordering::Equal) }
        else if *self is Bottom || *other is Top { Some(Ordering::Less) }
        else if *self is Top || *other is Bottom { Some(Ordering::Greater) }
        else { None }
    }
}
//@impl ascent_base lattice::constant_propagation | impl<T: PartialEq> PartialOrd for ConstPropagation<T>
//@end
//@impl ascent_base lattice::constant_propagation | impl<T: PartialEq> Lattice for ConstPropagation<T>
    open spec fn lat_wf() -> bool { structural_eq_wf::<T>() }
    open spec fn lat_le(&self, other: &Self) -> bool { *self is Bottom || *other is Top || *self == *other }
    open spec fn lat_join(self, other: Self) -> Self {
        if self is Bottom { other } else if other is Bottom { self } else if self == other { self } else { ConstPropagation::Top }
    }
    open spec fn lat_meet(self, other: Self) -> Self {
        if self is Top { other } else if other is Top { self } else if self == other { self } else { ConstPropagation::Bottom }
    }
    proof fn law_order(a: Self, b: Self, c: Self) {}
    proof fn law_join_lub(a: Self, b: Self, c: Self) {}
    proof fn law_meet_glb(a: Self, b: Self, c: Self) {}
    proof fn law_ord_agrees(a: Self, b: Self) {}
    proof fn law_obeys() {}
//@external meet_mut join_mut
//@end
//@impl ascent_base lattice::constant_propagation | impl<T: Lattice> BoundedLattice for ConstPropagation<T> where ConstPropagation<T>: Lattice
//@end
'''


def tvars(n):
    return ['T%d' % i for i in range(n)]


def product(n):
    ts = tvars(n)
    tup = '(' + ', '.join(ts) + (',)' if n == 1 else ')')
    g_po = ', '.join('%s: PartialOrd' % t for t in ts)
    g_lat = ', '.join('%s: Lattice' % t for t in ts)
    g_bl = ', '.join('%s: BoundedLattice' % t for t in ts)
    idx = range(n)
    all_ = lambda f: ' && '.join(f(i) for i in idx)
    pcs = lambda i: 'self.0.%d.partial_cmp_spec(&other.0.%d)' % (i, i)
    comp = lambda op: 'Product((' + ', '.join('self.0.%d.%s(other.0.%d)' % (i, op, i) for i in idx) + ',))'
    calls = lambda law, args: ' '.join('%s::%s(%s);' % (ts[i], law, ', '.join('%s.0.%d' % (a, i) for a in args)) for i in idx)
    return '''
impl<%(g_po)s> vstd::std_specs::cmp::PartialOrdSpecImpl for Product<%(tup)s> {
    open spec fn obeys_partial_cmp_spec() -> bool { %(obeys)s }
    // the product order: Equal iff all Equal; Less iff all <=; Greater iff all >=; otherwise incomparable
    open spec fn partial_cmp_spec(&self, other: &Self) -> Option<Ordering> {
        if %(alleq)s { Some(Ordering::Equal) }
        else if %(allle)s { Some(Ordering::Less) }
        else if %(allge)s { Some(Ordering::Greater) }
        else { None }
    }
}
//@impl ascent_base lattice::product | impl<%(g_po)s> PartialOrd for Product<%(tup)s>
//@end
//@impl ascent_base lattice::product | impl<%(g_lat)s> Lattice for Product<%(tup)s>
    open spec fn lat_wf() -> bool { %(wf)s }
    open spec fn lat_le(&self, other: &Self) -> bool { %(le)s }
    open spec fn lat_join(self, other: Self) -> Self { %(join)s }
    open spec fn lat_meet(self, other: Self) -> Self { %(meet)s }
    proof fn law_order(a: Self, b: Self, c: Self) { %(c_order)s %(c_order_refl)s %(c_order_anti)s }
    proof fn law_join_lub(a: Self, b: Self, c: Self) { %(c_join)s }
    proof fn law_meet_glb(a: Self, b: Self, c: Self) { %(c_meet)s }
    proof fn law_ord_agrees(a: Self, b: Self) { %(c_agree)s %(c_agree2)s }
    proof fn law_obeys() { %(c_obeys)s }
//@end
//@impl ascent_base lattice::product | impl<%(g_bl)s> BoundedLattice for Product<%(tup)s> where Product<%(tup)s>: Lattice
//@end
''' % {
        'g_po': g_po, 'g_lat': g_lat, 'g_bl': g_bl, 'tup': tup,
        'obeys': all_(lambda i: '%s::obeys_partial_cmp_spec()' % ts[i]),
        'alleq': all_(lambda i: 'ord_eq(%s)' % pcs(i)),
        'allle': all_(lambda i: 'ord_le(%s)' % pcs(i)),
        'allge': all_(lambda i: 'ord_ge(%s)' % pcs(i)),
        'wf': all_(lambda i: '%s::lat_wf()' % ts[i]),
        'le': all_(lambda i: 'self.0.%d.lat_le(&other.0.%d)' % (i, i)),
        'join': comp('lat_join'), 'meet': comp('lat_meet'),
        'c_order': calls('law_order', ['a', 'b', 'c']),
        'c_order_refl': calls('law_order', ['a', 'a', 'a']),
        'c_order_anti': calls('law_order', ['a', 'b', 'a']),
        'c_join': calls('law_join_lub', ['a', 'b', 'c']),
        'c_meet': calls('law_meet_glb', ['a', 'b', 'c']),
        'c_agree': calls('law_ord_agrees', ['a', 'b']),
        'c_agree2': calls('law_ord_agrees', ['b', 'a']),
        'c_obeys': ' '.join('%s::law_obeys();' % t for t in ts),
    }


PRODUCT_HEAD = r'''
//@type ascent_base lattice::product | Product

/// the product-order combination of two component orderings
pub open spec fn combine_spec(o1: Ordering, o2: Ordering) -> Option<Ordering> {
    if o1 == Ordering::Equal { Some(o2) }
    else if o2 == Ordering::Equal { Some(o1) }
    else if o1 == o2 { Some(o1) }
    else { None }
}
//@fn ascent_base lattice::product | combine_orderings | r
    ensures r == combine_spec(ord1, ord2)
//@end
'''


def tuple_(n):
    ts = tvars(n)
    tup = '(' + ', '.join(ts) + (',)' if n == 1 else ')')
    return '''
//@impl ascent_base lattice::tuple | impl<%(g)s> Lattice for %(tup)s where %(tup)s: Ord
    // tuples are lattices through their (lexicographic, total) Ord: join = max, meet = min
    open spec fn lat_wf() -> bool { total_order_wf::<%(tup)s>() }
    open spec fn lat_le(&self, other: &Self) -> bool { self.cmp_spec(other) != Ordering::Greater }
    open spec fn lat_join(self, other: Self) -> Self { if self.cmp_spec(&other) == Ordering::Less { other } else { self } }
    open spec fn lat_meet(self, other: Self) -> Self { if self.cmp_spec(&other) == Ordering::Greater { other } else { self } }
    proof fn law_order(a: Self, b: Self, c: Self) {}
    proof fn law_join_lub(a: Self, b: Self, c: Self) {}
    proof fn law_meet_glb(a: Self, b: Self, c: Self) {}
    proof fn law_ord_agrees(a: Self, b: Self) {}
    proof fn law_obeys() {}
//@end
''' % {'g': ', '.join(ts), 'tup': tup}


WITNESSES = r'''
// ------------------------------------------------------------------------------------------------
// Non-vacuity: the hypotheses lat_wf() are satisfiable, and nested compositions are covered by the
// generic proofs (these lemmas fail if a lat_wf() were contradictory or a composition left the claim).
pub proof fn wf_witnesses()
    ensures
        <u8 as Lattice>::lat_wf(),
        <i64 as Lattice>::lat_wf(),
        <Option<u8> as Lattice>::lat_wf(),
        <Dual<u32> as Lattice>::lat_wf(),
        <Dual<Option<Product<(u8, i16)>>> as Lattice>::lat_wf(),
        <Product<(Dual<u8>, Option<u8>)> as Lattice>::lat_wf(),
        <Option<Dual<Product<(u8, u8, Option<i32>)>>> as Lattice>::lat_wf(),
        <Reverse<Option<u8>> as Lattice>::lat_wf(),
{
}

pub proof fn wf_witness_total_order_u32()
    ensures total_order_wf::<u32>(), <OrdLattice<u32> as Lattice>::lat_wf(),
{
}

pub proof fn wf_witness_constprop()
    ensures structural_eq_wf::<u8>(), <ConstPropagation<u8> as Lattice>::lat_wf(), <Option<ConstPropagation<u8>> as Lattice>::lat_wf(),
{
}
'''

EPILOGUE = '''
} // verus!
fn main() {}
'''


def template(max_arity=MAX_ARITY):
    parts = [PRELUDE, ints(), OPTION, DUAL, REVERSE, ORD_LATTICE, PRODUCT_HEAD]
    for n in range(1, max_arity + 1):
        parts.append(product(n))
    for n in range(1, max_arity + 1):
        parts.append(tuple_(n))
    parts += [ARRAY, CONSTPROP, WITNESSES, EPILOGUE]
    return ''.join(parts)
