"""Verus template for the subsumption forest of ascent_byods_rels::trrel_union_find::TrRelUnionFind (C18; the structure under the
trrel_uf provider): class ids form an acyclic forest; get_dominant_id / elem_set return the root; the path-compressing variants
(get_dominant_id_mut_with_depth, get_dominant_id_mut, elem_set_update) change no root.  The connection closure maintained by add /
add_set_connection / merge_multiple (hashbrown set algebra through iterator adapters) is outside Verus: bounded native only.
The forest lemmas are shared with contracts/eqrel.py.
"""
from . import eqrel

FOREST = eqrel.FOREST

TEMPLATE = eqrel.PRELUDE + r'''
pub mod binary_rel {
    use super::*;
    pub type Map<T> = HashMap<T, HashSet<T, BuildHasherDefault<FxHasher>>, BuildHasherDefault<FxHasher>>;
}

//@type byods_src - | TrRelUnionFind | pubfields | noderive

''' + FOREST + r'''
/// number of subsumption steps from i to its root
pub open spec fn chain_len(subs: Map<usize, usize>, i: usize) -> nat
    decreases the_rank(subs)(i) when acyclic(subs)
{
    if subs.contains_key(i) { 1 + chain_len(subs, subs[i]) } else { 0 }
}
pub proof fn lemma_remove_keeps_acyclic(subs: Map<usize, usize>, i: usize)
    requires acyclic(subs),
    ensures acyclic(subs.remove(i)),
{
    let rk = the_rank(subs);
    assert(rank_ok(subs.remove(i), rk)) by {
        assert forall|k: usize| #[trigger] subs.remove(i).contains_key(k) implies rk(subs.remove(i)[k]) < rk(k) by { assert(subs.contains_key(k)); }
    }
}
/// a chain that starts strictly below i (in rank) never passes through i
pub proof fn lemma_chain_avoids(subs: Map<usize, usize>, i: usize, j: usize)
    requires acyclic(subs), acyclic(subs.remove(i)), the_rank(subs)(j) < the_rank(subs)(i),
    ensures chain_len(subs.remove(i), j) == chain_len(subs, j),
    decreases the_rank(subs)(j),
{
    let s2 = subs.remove(i);
    if subs.contains_key(j) {
        assert(j != i);
        assert(s2.contains_key(j) && s2[j] == subs[j]);
        lemma_chain_avoids(subs, i, subs[j]);
    } else {
        assert(!s2.contains_key(j));
    }
}
/// the chain of a node has at most as many steps as there are subsumptions (so counting it cannot overflow)
pub proof fn lemma_chain_bound(subs: Map<usize, usize>, i: usize)
    requires acyclic(subs), subs.dom().finite(),
    ensures chain_len(subs, i) <= subs.dom().len(),
    decreases subs.dom().len(),
{
    if subs.contains_key(i) {
        let s2 = subs.remove(i);
        lemma_remove_keeps_acyclic(subs, i);
        lemma_chain_avoids(subs, i, subs[i]);
        assert(s2.dom() =~= subs.dom().remove(i));
        lemma_chain_bound(s2, subs[i]);
    }
}

//@impl byods_src - | impl<T: Clone + Hash + Eq> TrRelUnionFind<T>
   pub open spec fn subs(&self) -> Map<usize, usize> { self.set_subsumptions@ }
   pub open spec fn ids(&self) -> Map<T, usize> { self.elem_ids@ }
   /// the subsumption forest is acyclic and in bounds
   pub open spec fn wf_subs(&self) -> bool {
       &&& acyclic(self.subs())
       &&& subs_in_bounds(self.subs(), self.sets.len() as nat)
   }
   pub open spec fn wf_ids(&self) -> bool {
       forall|x: T| #[trigger] self.ids().contains_key(x) ==> self.ids()[x] < self.sets.len()
   }
   /// class-level connection from -> to is recorded / recorded in the reverse map
   pub open spec fn conn(&self, a: usize, b: usize) -> bool { self.set_connections@.contains_key(a) && self.set_connections@[a]@.contains(b) }
   pub open spec fn rconn(&self, a: usize, b: usize) -> bool { self.reverse_set_connections@.contains_key(b) && self.reverse_set_connections@[b]@.contains(a) }
   /// the reverse connection map mirrors the connection map
   pub open spec fn conn_mirror(&self) -> bool {
       forall|a: usize, b: usize| #![trigger self.conn(a, b)] #![trigger self.rconn(a, b)] self.conn(a, b) <==> self.rconn(a, b)
   }
   /// THE VIEW used here: the class (dominant set id) of a known element
   pub open spec fn class_of(&self, x: T) -> usize { root(self.subs(), self.ids()[x]) }
   pub open spec fn clone_is_identity() -> bool {
       forall|a: T, b: T| #[trigger] call_ensures(T::clone, (&a,), b) ==> a == b
   }

//@fn get_dominant_id | r
       requires self.wf_subs(),
       ensures r == root(self.subs(), id),
       decreases the_rank(self.subs())(id),
//@fn get_dominant_id_mut_with_depth | r
       requires old(self).wf_subs(),
       ensures final(self).wf_subs(), r.0 == root(old(self).subs(), id),
               // the reported depth is the number of subsumption steps (it cannot overflow: at most one step per subsumption)
               r.1 == chain_len(old(self).subs(), id),
               forall|i: usize| #![trigger root(final(self).subs(), i)] #![trigger root(old(self).subs(), i)] root(final(self).subs(), i) == root(old(self).subs(), i),
               final(self).sets == old(self).sets, final(self).elem_ids == old(self).elem_ids, final(self).ids() == old(self).ids(),
               final(self).set_connections == old(self).set_connections, final(self).reverse_set_connections == old(self).reverse_set_connections,
               final(self).subs().dom() =~= old(self).subs().dom(),
       decreases the_rank(old(self).subs())(id),
//@ghost after-text let (dom_id, depth) = self.get_dominant_id_mut_with_depth(parent_id);
            proof {
                lemma_chain_bound(old(self).subs(), id);
                assert(old(self).subs().dom().len() == old(self).set_subsumptions.len());
            }
//@ghost after-text if dom_id != parent_id {
               proof {
                   assert(self.subs().contains_key(id)) by { assert(old(self).subs().dom().contains(id)); }
                   lemma_compress(self.subs(), id);
                   lemma_root_in_bounds(self.subs(), self.sets.len() as nat, id);
               }
//@fn get_dominant_id_mut | r
       requires old(self).wf_subs(),
       ensures final(self).wf_subs(), r == root(old(self).subs(), id),
               forall|i: usize| #![trigger root(final(self).subs(), i)] #![trigger root(old(self).subs(), i)] root(final(self).subs(), i) == root(old(self).subs(), i),
               final(self).sets == old(self).sets, final(self).elem_ids == old(self).elem_ids, final(self).ids() == old(self).ids(),
               final(self).set_connections == old(self).set_connections, final(self).reverse_set_connections == old(self).reverse_set_connections,
//@fn elem_set | r
       requires self.wf_subs(), obeys_key_model::<T>(),
       ensures r == (if self.ids().contains_key(*elem) { Some(self.class_of(*elem)) } else { None }),
//@closure 1 | id: &usize | r: usize
       ensures r == root(self.subs(), *id)
//@fn elem_set_update | r
       requires old(self).wf_subs(), old(self).wf_ids(), obeys_key_model::<T>(), Self::clone_is_identity(),
       ensures final(self).wf_subs(), final(self).wf_ids(),
               r == (if old(self).ids().contains_key(*elem) { Some(old(self).class_of(*elem)) } else { None }),
               // no element changes its class, no element appears or disappears
               final(self).ids().dom() =~= old(self).ids().dom(),
               forall|x: T| #[trigger] old(self).ids().contains_key(x) ==> final(self).class_of(x) == old(self).class_of(x),
               forall|i: usize| #![trigger root(final(self).subs(), i)] #![trigger root(old(self).subs(), i)] root(final(self).subs(), i) == root(old(self).subs(), i),
               final(self).sets == old(self).sets,
//@ghost after-text let dominant_id = self.get_dominant_id_mut(id);
      proof {
          lemma_root_is_root(old(self).subs(), id);
          lemma_root_in_bounds(old(self).subs(), old(self).sets.len() as nat, id);
          assert(root(old(self).subs(), dominant_id) == dominant_id);
      }
//@fn add_node_new | r
       requires old(self).wf_subs(), old(self).wf_ids(), obeys_key_model::<T>(), Self::clone_is_identity(), old(self).sets.len() < usize::MAX,
       ensures final(self).wf_subs(), final(self).wf_ids(),
               // the second component says whether x was unknown; a new element gets a fresh class of its own
               r.1 == !old(self).ids().contains_key(x),
               final(self).ids().contains_key(x) && r.0 == final(self).class_of(x),
               r.1 ==> r.0 == old(self).sets.len() && final(self).sets.len() == old(self).sets.len() + 1 && final(self).ids().dom() =~= old(self).ids().dom().insert(x),
               !r.1 ==> r.0 == old(self).class_of(x) && final(self).sets == old(self).sets,
               // every known element keeps its class
               forall|z: T| #[trigger] old(self).ids().contains_key(z) ==> final(self).ids().contains_key(z) && final(self).class_of(z) == old(self).class_of(z),
               forall|i: usize| #![trigger root(final(self).subs(), i)] #![trigger root(old(self).subs(), i)] root(final(self).subs(), i) == root(old(self).subs(), i),
//@ghost after-text self.elem_ids.insert(x.clone(), elem_id);
            proof {
                assert(!self.subs().contains_key(elem_id));
                assert(root(self.subs(), elem_id) == elem_id);
            }
//@fn add_node | r
       requires old(self).wf_subs(), old(self).wf_ids(), obeys_key_model::<T>(), Self::clone_is_identity(), old(self).sets.len() < usize::MAX,
       ensures final(self).wf_subs(), final(self).wf_ids(), final(self).ids().contains_key(x) && r == final(self).class_of(x),
               forall|z: T| #[trigger] old(self).ids().contains_key(z) ==> final(self).ids().contains_key(z) && final(self).class_of(z) == old(self).class_of(z),
//@fn add_one_connection | r
       requires old(self).conn_mirror(),
       ensures final(self).conn_mirror(),
               r == !old(self).conn(from, to),
               forall|a: usize, b: usize| #![trigger final(self).conn(a, b)] #![trigger old(self).conn(a, b)] final(self).conn(a, b) <==> (old(self).conn(a, b) || (a == from && b == to)),
               final(self).sets == old(self).sets, final(self).elem_ids == old(self).elem_ids, final(self).set_subsumptions == old(self).set_subsumptions,
//@ghost after-text if !self.set_connections.entry(from).or_default().insert(to) {
         proof {
             let m0 = old(self).set_connections@;
             assert(m0.contains_key(from) && m0[from]@.contains(to));
             assert(self.set_connections@.contains_key(from) && self.set_connections@[from]@ =~= m0[from]@);
             assert(forall|a: usize| a != from ==> (#[trigger] self.set_connections@.contains_key(a) == m0.contains_key(a)) && (m0.contains_key(a) ==> self.set_connections@[a] == m0[a]));
             assert forall|a: usize, b: usize| self.conn(a, b) <==> old(self).conn(a, b) by { }
             assert forall|a: usize, b: usize| self.conn(a, b) <==> self.rconn(a, b) by {
                 assert(old(self).conn(a, b) <==> old(self).rconn(a, b));
             }
         }
//@ghost after-text self.reverse_set_connections.entry(to).or_default().insert(from);
      proof {
          let m0 = old(self).set_connections@;
          let r0 = old(self).reverse_set_connections@;
          let s0 = if m0.contains_key(from) { m0[from]@ } else { Set::<usize>::empty() };
          let v0 = if r0.contains_key(to) { r0[to]@ } else { Set::<usize>::empty() };
          assert(!s0.contains(to));
          assert(self.set_connections@.contains_key(from) && self.set_connections@[from]@ == s0.insert(to));
          assert(forall|a: usize| a != from ==> (#[trigger] self.set_connections@.contains_key(a) == m0.contains_key(a)) && (m0.contains_key(a) ==> self.set_connections@[a] == m0[a]));
          assert(self.reverse_set_connections@.contains_key(to) && self.reverse_set_connections@[to]@ == v0.insert(from));
          assert(forall|b: usize| b != to ==> (#[trigger] self.reverse_set_connections@.contains_key(b) == r0.contains_key(b)) && (r0.contains_key(b) ==> self.reverse_set_connections@[b] == r0[b]));
          assert forall|a: usize, b: usize| self.conn(a, b) <==> self.rconn(a, b) by {
              if a == from && b == to {
              } else if b == to {
                  assert(old(self).conn(a, to) <==> old(self).rconn(a, to));
              } else if a == from {
                  assert(old(self).conn(from, b) <==> old(self).rconn(from, b));
              } else {
                  assert(old(self).conn(a, b) <==> old(self).rconn(a, b));
              }
          }
      }
//@drop get_dominant_id_mut_halving add merge_multiple add_set_connection set_of set_of_by_set_id rev_set_of rev_set_of_by_set_id iter_all contains is_empty get_set_connections get_reverse_set_connections count_exact assert_disjoint_invariant assert_set_connections_dominant_sets
//@end

} // verus!

fn main() {}
'''


def template():
    return TEMPLATE
