"""Verus template for versions_base (C01): the semi-naive version vectors cover every assignment with a delta, for ALL n."""

TEMPLATE = r'''#![allow(unused_imports, dead_code, unused_variables, unused_mut)]
use vstd::prelude::*;
use vstd::std_specs::iter::IteratorSpec;

verus! {

//@type ascent_macro_src - | MirRelationVersion

/// which concrete version (false = total, true = delta) a version marker admits
pub open spec fn admits(v: MirRelationVersion, delta: bool) -> bool {
    match v { MirRelationVersion::Total => !delta, MirRelationVersion::Delta => delta, MirRelationVersion::TotalDelta => true, MirRelationVersion::New => false }
}
pub open spec fn vec_admits(v: Seq<MirRelationVersion>, a: Seq<bool>) -> bool {
    v.len() == a.len() && forall|j: int| 0 <= j < a.len() ==> admits(#[trigger] v[j], a[j])
}
pub open spec fn has_delta(a: Seq<bool>) -> bool { exists|k: int| 0 <= k < a.len() && #[trigger] a[k] }
pub open spec fn view2(res: Vec<Vec<MirRelationVersion>>) -> Seq<Seq<MirRelationVersion>> {
    Seq::new(res@.len(), |i: int| res@[i]@)
}
/// THE CONTRACT (from property C01, "a dropped delta/total rule variant"): every vector has n entries, and every assignment of
/// {total, delta} to the n dynamic clauses with at least one delta is admitted by some vector, i.e. some generated rule
/// variant evaluates it.  Deliberately semantic: it does not prescribe the decomposition.
pub open spec fn vb_post(res: Seq<Seq<MirRelationVersion>>, n: nat) -> bool {
    &&& forall|i: int| 0 <= i < res.len() ==> (#[trigger] res[i]).len() == n
    &&& forall|a: Seq<bool>| a.len() == n && #[trigger] has_delta(a) ==> exists|i: int| 0 <= i < res.len() && vec_admits(#[trigger] res[i], a)
}
/// induction step: extending every vector of a complete set for n-1 by TotalDelta and adding (Total,..,Total,Delta) is complete for n
pub proof fn lemma_step(prev: Seq<Seq<MirRelationVersion>>, res: Seq<Seq<MirRelationVersion>>, n: nat)
    requires
        n > 0, vb_post(prev, (n - 1) as nat), res.len() == prev.len() + 1,
        forall|i: int| 0 <= i < prev.len() ==> #[trigger] res[i] == prev[i].push(MirRelationVersion::TotalDelta),
        res[prev.len() as int].len() == n,
        forall|j: int| 0 <= j < n ==> #[trigger] res[prev.len() as int][j] == (if j == n - 1 { MirRelationVersion::Delta } else { MirRelationVersion::Total }),
    ensures vb_post(res, n),
{
    assert forall|a: Seq<bool>| a.len() == n && #[trigger] has_delta(a) implies exists|i: int| 0 <= i < res.len() && vec_admits(#[trigger] res[i], a) by {
        let a1 = a.take(n - 1);
        if has_delta(a1) {
            let i = choose|i: int| 0 <= i < prev.len() && vec_admits(#[trigger] prev[i], a1);
            assert(res[i] == prev[i].push(MirRelationVersion::TotalDelta));
            assert forall|j: int| 0 <= j < a.len() implies admits(#[trigger] res[i][j], a[j]) by {
                if j < n - 1 { assert(a1[j] == a[j]); assert(res[i][j] == prev[i][j]); }
            }
            assert(vec_admits(res[i], a));
        } else {
            let k = choose|k: int| 0 <= k < a.len() && #[trigger] a[k];
            if k < n - 1 { assert(a1[k]); assert(has_delta(a1)); }
            let last = prev.len() as int;
            assert forall|j: int| 0 <= j < a.len() implies admits(#[trigger] res[last][j], a[j]) by {
                if j < n - 1 { if a[j] { assert(a1[j]); assert(has_delta(a1)); } }
            }
            assert(vec_admits(res[last], a));
        }
    }
}

//@fn ascent_macro_src - | versions_base | res
    ensures vb_post(view2(res), count as nat),
    decreases count,
//@ghost before-loop 1
        let ghost prev = view2(res);
//@loop 1
            invariant
                VERUS_it.seq().len() == prev.len(),
                forall|j: int| 0 <= j < VERUS_it.seq().len() ==> (*#[trigger] VERUS_it.seq()[j])@ == prev[j],
                forall|j: int| 0 <= j < VERUS_it.index() ==> (*final(#[trigger] VERUS_it.seq()[j]))@ == prev[j].push(MirRelationVersion::TotalDelta),
//@ghost after-text res.push(new_combination);
        proof { lemma_step(prev, view2(res), count as nat); }
//@end

} // verus!
fn main() {}
'''


def template():
    return TEMPLATE
