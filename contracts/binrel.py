"""Verus template for ascent_byods_rels::binary_rel::BinaryRel (C11): the pair store under the trrel provider.

Abstract view has(a, b); invariant wf: the reverse map mirrors the map (y is in map[x] exactly when x occurs in
reverse_map[y]).  insert(x, y) adds exactly the pair (x, y), reports whether it was new, and keeps wf.
"""

TEMPLATE = r'''#![allow(unused_imports, dead_code, unused_variables, unused_mut, non_snake_case, unused_parens, unused_braces)]
#![feature(allocator_api)]
use vstd::prelude::*;
use vstd::std_specs::hash::*;
use std::collections::{HashMap, HashSet};
use std::hash::{BuildHasher, BuildHasherDefault, Hash, Hasher};

// ---- stand-ins (TRUSTED): rustc_hash::FxHasher by a unit type; hashbrown::{HashMap, HashSet} by std's ----
pub struct FxHasher;
impl Default for FxHasher { fn default() -> Self { FxHasher } }
impl Hasher for FxHasher { fn finish(&self) -> u64 { 0 } fn write(&mut self, _b: &[u8]) {} }
pub type MyHashSet<T, S> = HashSet<T, S>;

verus! {

#[verifier::external_body]
#[verifier::external_type_specification]
pub struct ExFxHasher(FxHasher);

#[verifier::external_body]
#[verifier::reject_recursive_types(H)]
#[verifier::external_type_specification]
pub struct ExBuildHasherDefault<H>(std::hash::BuildHasherDefault<H>);

pub mod trusted {
    use super::*;
    // ASSUMED: BuildHasherDefault<FxHasher> builds hashers that make HashMap/HashSet behave as maps/sets
    pub broadcast proof fn axiom_fx_builds_valid_hashers()
        ensures #[trigger] builds_valid_hashers::<BuildHasherDefault<FxHasher>>()
    { admit(); }
    /// the value Default::default() returns
    pub uninterp spec fn default_value<V>() -> V;
    // ASSUMED: HashSet::default() is the empty set, Vec::default() the empty vector
    pub broadcast proof fn axiom_hashset_default_is_empty<T, S>()
        ensures (#[trigger] default_value::<HashSet<T, S>>())@ == Set::<T>::empty()
    { admit(); }
    pub broadcast proof fn axiom_vec_default_is_empty<T>()
        ensures (#[trigger] default_value::<Vec<T>>())@ == Seq::<T>::empty()
    { admit(); }
    // ASSUMED: an array, consumed as an iterator, yields its elements in order
    pub broadcast proof fn axiom_array_into_iter<T, const N: usize>(a: [T; N])
        ensures #[trigger] vstd::std_specs::iter::into_iter_remaining::<T, [T; N]>(a) == a@
    { admit(); }
    // ASSUMED: HashSet::from_iter collects exactly the yielded elements
    pub broadcast proof fn axiom_hashset_from_iter<T: Eq + Hash, S: std::hash::BuildHasher + Default>(q: Seq<T>, r: HashSet<T, S>)
        requires #[trigger] <HashSet<T, S> as vstd::std_specs::iter::FromIteratorSpec<T>>::from_iter_ensures(q, r)
        ensures r@ == q.to_set()
    { admit(); }
}
use trusted::default_value;
broadcast use {trusted::axiom_fx_builds_valid_hashers, trusted::axiom_hashset_default_is_empty, trusted::axiom_vec_default_is_empty,
               trusted::axiom_array_into_iter, trusted::axiom_hashset_from_iter};

// ASSUMED contract of Entry::or_default (mirrors vstd's Entry::or_insert with the default value)
pub assume_specification<'a, K, V: Default> [std::collections::hash_map::Entry::<'a, K, V>::or_default] (e: std::collections::hash_map::Entry<'a, K, V>) -> (r: &'a mut V)
    ensures
        *r == (match e.value() { Some(v) => v, None => default_value::<V>() }),
        e.final_value() == Some(*final(r)),
;
// ASSUMED contract of Option::is_some_and
pub assume_specification<T, F: FnOnce(T) -> bool> [Option::<T>::is_some_and] (o: Option<T>, f: F) -> (r: bool)
    requires o is Some ==> f.requires((o->0,)),
    ensures match o { None => !r, Some(v) => f.ensures((v,), r) },
;

// ---- hashbrown's raw entry API (`map.raw_entry_mut().from_key(k)` -> Occupied / Vacant), modelled over std's HashMap (TRUSTED).
// from_key and RawVacantEntryMut::insert are verified against vstd's std contracts; RawOccupiedEntryMut::get_mut is ASSUMED
// (std's HashMap::get_mut has no vstd specification): it lends the value stored under the key and writes it back.
pub mod hashbrown { pub mod hash_map {
    use super::super::*;
    #[verifier::reject_recursive_types(K)]
    #[verifier::reject_recursive_types(S)]
    pub struct RawEntryBuilderMut<'a, K, V, S> { pub map: &'a mut std::collections::HashMap<K, V, S> }
    #[verifier::reject_recursive_types(K)]
    #[verifier::reject_recursive_types(S)]
    pub struct RawOccupiedEntryMut<'a, K, V, S> { pub map: &'a mut std::collections::HashMap<K, V, S>, pub key: Ghost<K> }
    #[verifier::reject_recursive_types(K)]
    #[verifier::reject_recursive_types(S)]
    pub struct RawVacantEntryMut<'a, K, V, S> { pub map: &'a mut std::collections::HashMap<K, V, S> }
    #[verifier::reject_recursive_types(K)]
    #[verifier::reject_recursive_types(S)]
    pub enum RawEntryMut<'a, K, V, S> { Occupied(RawOccupiedEntryMut<'a, K, V, S>), Vacant(RawVacantEntryMut<'a, K, V, S>) }
    impl<'a, K: Eq + Hash, V, S: std::hash::BuildHasher> RawEntryBuilderMut<'a, K, V, S> {
        pub fn from_key(self, k: &K) -> (r: RawEntryMut<'a, K, V, S>)
            requires obeys_key_model::<K>(), builds_valid_hashers::<S>(),
            ensures match r {
                RawEntryMut::Occupied(o) => old(self.map)@.contains_key(*k) && o.key@ == *k && *o.map == *old(self.map) && *final(o.map) == *final(self.map),
                RawEntryMut::Vacant(o) => !old(self.map)@.contains_key(*k) && *o.map == *old(self.map) && *final(o.map) == *final(self.map),
            }
        {
            if self.map.contains_key(k) { RawEntryMut::Occupied(RawOccupiedEntryMut { map: self.map, key: Ghost(*k) }) } else { RawEntryMut::Vacant(RawVacantEntryMut { map: self.map }) }
        }
    }
    impl<'a, K: Eq + Hash, V, S: std::hash::BuildHasher> RawOccupiedEntryMut<'a, K, V, S> {
        #[verifier::external_body]
        pub fn get_mut(&mut self) -> (r: &mut V)
            requires obeys_key_model::<K>(), builds_valid_hashers::<S>(), old(self).map@.contains_key(old(self).key@),
            ensures *r == old(self).map@[old(self).key@],
                    final(self).map@ == old(self).map@.insert(old(self).key@, *final(r)),
                    final(self).key == old(self).key,
                    *final(final(self).map) == *final(old(self).map),
        { unimplemented!() }
    }
    impl<'a, K: Eq + Hash, V, S: std::hash::BuildHasher> RawVacantEntryMut<'a, K, V, S> {
        pub fn insert(self, k: K, v: V)
            requires obeys_key_model::<K>(), builds_valid_hashers::<S>(),
            ensures final(self.map)@ == old(self.map)@.insert(k, v)
        { self.map.insert(k, v); }
    }
    pub trait RawEntryApi<K, V, S> {
        spec fn as_std(&self) -> &std::collections::HashMap<K, V, S>;
        fn raw_entry_mut(&mut self) -> (b: RawEntryBuilderMut<'_, K, V, S>)
            ensures *b.map == *old(self).as_std(), *final(b.map) == *final(self).as_std();
    }
    impl<K: Eq + Hash, V, S: std::hash::BuildHasher> RawEntryApi<K, V, S> for std::collections::HashMap<K, V, S> {
        open spec fn as_std(&self) -> &std::collections::HashMap<K, V, S> { self }
        fn raw_entry_mut(&mut self) -> (b: RawEntryBuilderMut<'_, K, V, S>)
        { RawEntryBuilderMut { map: self } }
    }
} }
use hashbrown::hash_map::RawEntryApi;

pub type Map<T> = HashMap<T, MyHashSet<T, BuildHasherDefault<FxHasher>>, BuildHasherDefault<FxHasher>>;
pub type RevMap<T> = HashMap<T, Vec<T>, BuildHasherDefault<FxHasher>>;

//@type byods_src - | BinaryRel | pubfields | noderive

//@impl byods_src - | impl<T: Clone + Hash + Eq> BinaryRel<T>
   /// THE ABSTRACT VIEW: the pair (a, b) is stored
   pub open spec fn has(&self, a: T, b: T) -> bool { self.map@.contains_key(a) && self.map@[a]@.contains(b) }
   /// x occurs in the reverse entry of y
   pub open spec fn rev_has(&self, a: T, b: T) -> bool { self.reverse_map@.contains_key(b) && self.reverse_map@[b]@.contains(a) }
   /// representation invariant: the reverse map mirrors the map, without repetitions
   pub open spec fn wf(&self) -> bool {
       &&& forall|a: T, b: T| #![trigger self.has(a, b)] #![trigger self.rev_has(a, b)] self.has(a, b) <==> self.rev_has(a, b)
       &&& forall|b: T| #[trigger] self.reverse_map@.contains_key(b) ==> self.reverse_map@[b]@.no_duplicates()
   }
   pub open spec fn clone_is_identity() -> bool {
       forall|a: T, b: T| #[trigger] call_ensures(T::clone, (&a,), b) ==> a == b
   }
   pub proof fn lemma_empty_wf(&self)
       requires self.map@ == vstd::map::Map::<T, MyHashSet<T, BuildHasherDefault<FxHasher>>>::empty(), self.reverse_map@ == vstd::map::Map::<T, Vec<T>>::empty(),
       ensures self.wf(), forall|a: T, b: T| !self.has(a, b),
   {
   }
//@fn insert | r
       requires old(self).wf(), obeys_key_model::<T>(), Self::clone_is_identity(),
       ensures final(self).wf(),
               r == !old(self).has(x, y),
               forall|a: T, b: T| #![trigger final(self).has(a, b)] #![trigger old(self).has(a, b)] final(self).has(a, b) <==> (old(self).has(a, b) || (a == x && b == y)),
//@ghost after-text self.reverse_map.entry(y).or_default().push(x);
         proof {
             let m0 = old(self).map@;
             let r0 = old(self).reverse_map@;
             let s0 = if m0.contains_key(x) { m0[x]@ } else { Set::<T>::empty() };
             let v0 = if r0.contains_key(y) { r0[y]@ } else { Seq::<T>::empty() };
             assert(!s0.contains(y));
             assert(!old(self).has(x, y));
             assert(!v0.contains(x)) by { if v0.contains(x) { assert(old(self).rev_has(x, y)); } }
             assert(self.map@.contains_key(x) && self.map@[x]@ == s0.insert(y));
             assert(forall|a: T| a != x ==> (#[trigger] self.map@.contains_key(a) == m0.contains_key(a)) && (m0.contains_key(a) ==> self.map@[a] == m0[a]));
             assert(self.reverse_map@.contains_key(y) && self.reverse_map@[y]@ == v0.push(x));
             assert(forall|b: T| b != y ==> (#[trigger] self.reverse_map@.contains_key(b) == r0.contains_key(b)) && (r0.contains_key(b) ==> self.reverse_map@[b] == r0[b]));
             assert forall|a: T| #[trigger] v0.push(x).contains(a) <==> (v0.contains(a) || a == x) by {
                 if v0.push(x).contains(a) {
                     let i = choose|i: int| 0 <= i < v0.push(x).len() && v0.push(x)[i] == a;
                     if i < v0.len() { assert(v0[i] == a); }
                 }
                 if v0.contains(a) {
                     let i = choose|i: int| 0 <= i < v0.len() && v0[i] == a;
                     assert(v0.push(x)[i] == a);
                 }
                 if a == x { assert(v0.push(x)[v0.len() as int] == x); }
             }
             assert(v0.push(x).no_duplicates()) by {
                 if r0.contains_key(y) { assert(v0.no_duplicates()); }
             }
             assert forall|a: T, b: T| self.has(a, b) <==> self.rev_has(a, b) by {
                 if a == x && b == y {
                 } else if b == y {
                     assert(old(self).has(a, y) <==> old(self).rev_has(a, y));
                 } else if a == x {
                     assert(old(self).has(x, b) <==> old(self).rev_has(x, b));
                 } else {
                     assert(old(self).has(a, b) <==> old(self).rev_has(a, b));
                 }
             }
         }
//@ghost after-text else {
         proof {
             let m0 = old(self).map@;
             assert(m0.contains_key(x) && m0[x]@.contains(y));
             assert(self.map@.contains_key(x) && self.map@[x]@ =~= m0[x]@);
             assert(forall|a: T| a != x ==> (#[trigger] self.map@.contains_key(a) == m0.contains_key(a)) && (m0.contains_key(a) ==> self.map@[a] == m0[a]));
             assert forall|a: T, b: T| self.has(a, b) <==> old(self).has(a, b) by { }
             assert forall|a: T, b: T| self.has(a, b) <==> self.rev_has(a, b) by {
                 assert(old(self).has(a, b) <==> old(self).rev_has(a, b));
             }
         }
//@fn insert_by_ref | r
       requires old(self).wf(), obeys_key_model::<T>(), Self::clone_is_identity(),
       ensures final(self).wf(),
               r == !old(self).has(*x, *y),
               forall|a: T, b: T| #![trigger final(self).has(a, b)] #![trigger old(self).has(a, b)] final(self).has(a, b) <==> (old(self).has(a, b) || (a == *x && b == *y)),
//@ghost after-text vac.insert(x.clone(), MyHashSet::from_iter([y.clone()])); true }, };
      proof {
          let m0 = old(self).map@;
          let s0 = if m0.contains_key(*x) { m0[*x]@ } else { Set::<T>::empty() };
          assert(self.reverse_map@ == old(self).reverse_map@);
          assert(self.map@.contains_key(*x));
          assert(self.map@[*x]@ =~= s0.insert(*y));
          assert(added == !s0.contains(*y));
          assert(forall|a: T| a != *x ==> (#[trigger] self.map@.contains_key(a) == m0.contains_key(a)) && (m0.contains_key(a) ==> self.map@[a] == m0[a]));
          if !added {
              assert(m0.contains_key(*x) && m0[*x]@.contains(*y));
              assert(self.map@[*x]@ =~= m0[*x]@);
              assert forall|a: T, b: T| self.has(a, b) <==> old(self).has(a, b) by { }
              assert forall|a: T, b: T| self.has(a, b) <==> self.rev_has(a, b) by {
                  assert(old(self).has(a, b) <==> old(self).rev_has(a, b));
              }
          }
      }
//@ghost after-text vac.insert(y.clone(), vec![x.clone()]); }, };
         proof {
             let m0 = old(self).map@;
             let r0 = old(self).reverse_map@;
             let s0 = if m0.contains_key(*x) { m0[*x]@ } else { Set::<T>::empty() };
             let v0 = if r0.contains_key(*y) { r0[*y]@ } else { Seq::<T>::empty() };
             assert(!s0.contains(*y));
             assert(!old(self).has(*x, *y));
             assert(!v0.contains(*x)) by { if v0.contains(*x) { assert(old(self).rev_has(*x, *y)); } }
             assert(self.reverse_map@.contains_key(*y));
             assert(self.reverse_map@[*y]@ =~= v0.push(*x));
             assert(forall|b: T| b != *y ==> (#[trigger] self.reverse_map@.contains_key(b) == r0.contains_key(b)) && (r0.contains_key(b) ==> self.reverse_map@[b] == r0[b]));
             assert forall|a: T| #[trigger] v0.push(*x).contains(a) <==> (v0.contains(a) || a == *x) by {
                 if v0.push(*x).contains(a) {
                     let i = choose|i: int| 0 <= i < v0.push(*x).len() && v0.push(*x)[i] == a;
                     if i < v0.len() { assert(v0[i] == a); }
                 }
                 if v0.contains(a) {
                     let i = choose|i: int| 0 <= i < v0.len() && v0[i] == a;
                     assert(v0.push(*x)[i] == a);
                 }
                 if a == *x { assert(v0.push(*x)[v0.len() as int] == *x); }
             }
             assert(v0.push(*x).no_duplicates()) by {
                 if r0.contains_key(*y) { assert(v0.no_duplicates()); }
             }
             assert forall|a: T, b: T| self.has(a, b) <==> self.rev_has(a, b) by {
                 if a == *x && b == *y {
                 } else if b == *y {
                     assert(old(self).has(a, *y) <==> old(self).rev_has(a, *y));
                 } else if a == *x {
                     assert(old(self).has(*x, b) <==> old(self).rev_has(*x, b));
                 } else {
                     assert(old(self).has(a, b) <==> old(self).rev_has(a, b));
                 }
             }
         }
//@fn contains | r
       requires obeys_key_model::<T>(),
       ensures r == self.has(*x, *y),
//@closure 1 | s: &MyHashSet<T, BuildHasherDefault<FxHasher>> | r: bool
       ensures r == s@.contains(*y)
//@drop iter_all count_estimate count_exact
//@end

} // verus!

fn main() {}
'''


def template():
    return TEMPLATE
