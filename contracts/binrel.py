"""Verus template for ascent_byods_rels::binary_rel::BinaryRel (C11): the pair store under the trrel provider.

Abstract view has(a, b); invariant wf: the reverse map mirrors the map (y is in map[x] exactly when x occurs in
reverse_map[y]).  insert(x, y) adds exactly the pair (x, y), reports whether it was new, and keeps wf.
"""

TEMPLATE = r'''#![allow(unused_imports, dead_code, unused_variables, unused_mut, non_snake_case, unused_parens, unused_braces)]
#![feature(allocator_api)]
use vstd::prelude::*;
use vstd::std_specs::hash::*;
use std::collections::{HashMap, HashSet};
use std::hash::{BuildHasher, BuildHasherDefault, Hash, Hasher};

// ---- stand-ins (TRUSTED): rustc_hash::FxHasher by a unit type; hashbrown::{HashMap, HashSet} by std's ----
pub struct FxHasher;
impl Default for FxHasher { fn default() -> Self { FxHasher } }
impl Hasher for FxHasher { fn finish(&self) -> u64 { 0 } fn write(&mut self, _b: &[u8]) {} }
pub type MyHashSet<T, S> = HashSet<T, S>;

verus! {

#[verifier::external_body]
#[verifier::external_type_specification]
pub struct ExFxHasher(FxHasher);

#[verifier::external_body]
#[verifier::reject_recursive_types(H)]
#[verifier::external_type_specification]
pub struct ExBuildHasherDefault<H>(std::hash::BuildHasherDefault<H>);

pub mod trusted {
    use super::*;
    // ASSUMED: BuildHasherDefault<FxHasher> builds hashers that make HashMap/HashSet behave as maps/sets
    pub broadcast proof fn axiom_fx_builds_valid_hashers()
        ensures #[trigger] builds_valid_hashers::<BuildHasherDefault<FxHasher>>()
    { admit(); }
    /// the value Default::default() returns
    pub uninterp spec fn default_value<V>() -> V;
    // ASSUMED: HashSet::default() is the empty set, Vec::default() the empty vector
    pub broadcast proof fn axiom_hashset_default_is_empty<T, S>()
        ensures (#[trigger] default_value::<HashSet<T, S>>())@ == Set::<T>::empty()
    { admit(); }
    pub broadcast proof fn axiom_vec_default_is_empty<T>()
        ensures (#[trigger] default_value::<Vec<T>>())@ == Seq::<T>::empty()
    { admit(); }
}
use trusted::default_value;
broadcast use {trusted::axiom_fx_builds_valid_hashers, trusted::axiom_hashset_default_is_empty, trusted::axiom_vec_default_is_empty};

// ASSUMED contract of Entry::or_default (mirrors vstd's Entry::or_insert with the default value)
pub assume_specification<'a, K, V: Default> [std::collections::hash_map::Entry::<'a, K, V>::or_default] (e: std::collections::hash_map::Entry<'a, K, V>) -> (r: &'a mut V)
    ensures
        *r == (match e.value() { Some(v) => v, None => default_value::<V>() }),
        e.final_value() == Some(*final(r)),
;
// ASSUMED contract of Option::is_some_and
pub assume_specification<T, F: FnOnce(T) -> bool> [Option::<T>::is_some_and] (o: Option<T>, f: F) -> (r: bool)
    requires o is Some ==> f.requires((o->0,)),
    ensures match o { None => !r, Some(v) => f.ensures((v,), r) },
;

pub type Map<T> = HashMap<T, MyHashSet<T, BuildHasherDefault<FxHasher>>, BuildHasherDefault<FxHasher>>;
pub type RevMap<T> = HashMap<T, Vec<T>, BuildHasherDefault<FxHasher>>;

//@type byods_src - | BinaryRel | pubfields | noderive

//@impl byods_src - | impl<T: Clone + Hash + Eq> BinaryRel<T>
   /// THE ABSTRACT VIEW: the pair (a, b) is stored
   pub open spec fn has(&self, a: T, b: T) -> bool { self.map@.contains_key(a) && self.map@[a]@.contains(b) }
   /// x occurs in the reverse entry of y
   pub open spec fn rev_has(&self, a: T, b: T) -> bool { self.reverse_map@.contains_key(b) && self.reverse_map@[b]@.contains(a) }
   /// representation invariant: the reverse map mirrors the map, without repetitions
   pub open spec fn wf(&self) -> bool {
       &&& forall|a: T, b: T| #![trigger self.has(a, b)] #![trigger self.rev_has(a, b)] self.has(a, b) <==> self.rev_has(a, b)
       &&& forall|b: T| #[trigger] self.reverse_map@.contains_key(b) ==> self.reverse_map@[b]@.no_duplicates()
   }
   pub open spec fn clone_is_identity() -> bool {
       forall|a: T, b: T| #[trigger] call_ensures(T::clone, (&a,), b) ==> a == b
   }
   pub proof fn lemma_empty_wf(&self)
       requires self.map@ == vstd::map::Map::<T, MyHashSet<T, BuildHasherDefault<FxHasher>>>::empty(), self.reverse_map@ == vstd::map::Map::<T, Vec<T>>::empty(),
       ensures self.wf(), forall|a: T, b: T| !self.has(a, b),
   {
   }
//@fn insert | r
       requires old(self).wf(), obeys_key_model::<T>(), Self::clone_is_identity(),
       ensures final(self).wf(),
               r == !old(self).has(x, y),
               forall|a: T, b: T| #![trigger final(self).has(a, b)] #![trigger old(self).has(a, b)] final(self).has(a, b) <==> (old(self).has(a, b) || (a == x && b == y)),
//@ghost after-text self.reverse_map.entry(y).or_default().push(x);
         proof {
             let m0 = old(self).map@;
             let r0 = old(self).reverse_map@;
             let s0 = if m0.contains_key(x) { m0[x]@ } else { Set::<T>::empty() };
             let v0 = if r0.contains_key(y) { r0[y]@ } else { Seq::<T>::empty() };
             assert(!s0.contains(y));
             assert(!old(self).has(x, y));
             assert(!v0.contains(x)) by { if v0.contains(x) { assert(old(self).rev_has(x, y)); } }
             assert(self.map@.contains_key(x) && self.map@[x]@ == s0.insert(y));
             assert(forall|a: T| a != x ==> (#[trigger] self.map@.contains_key(a) == m0.contains_key(a)) && (m0.contains_key(a) ==> self.map@[a] == m0[a]));
             assert(self.reverse_map@.contains_key(y) && self.reverse_map@[y]@ == v0.push(x));
             assert(forall|b: T| b != y ==> (#[trigger] self.reverse_map@.contains_key(b) == r0.contains_key(b)) && (r0.contains_key(b) ==> self.reverse_map@[b] == r0[b]));
             assert forall|a: T| #[trigger] v0.push(x).contains(a) <==> (v0.contains(a) || a == x) by {
                 if v0.push(x).contains(a) {
                     let i = choose|i: int| 0 <= i < v0.push(x).len() && v0.push(x)[i] == a;
                     if i < v0.len() { assert(v0[i] == a); }
                 }
                 if v0.contains(a) {
                     let i = choose|i: int| 0 <= i < v0.len() && v0[i] == a;
                     assert(v0.push(x)[i] == a);
                 }
                 if a == x { assert(v0.push(x)[v0.len() as int] == x); }
             }
             assert(v0.push(x).no_duplicates()) by {
                 if r0.contains_key(y) { assert(v0.no_duplicates()); }
             }
             assert forall|a: T, b: T| self.has(a, b) <==> self.rev_has(a, b) by {
                 if a == x && b == y {
                 } else if b == y {
                     assert(old(self).has(a, y) <==> old(self).rev_has(a, y));
                 } else if a == x {
                     assert(old(self).has(x, b) <==> old(self).rev_has(x, b));
                 } else {
                     assert(old(self).has(a, b) <==> old(self).rev_has(a, b));
                 }
             }
         }
//@ghost after-text else {
         proof {
             let m0 = old(self).map@;
             assert(m0.contains_key(x) && m0[x]@.contains(y));
             assert(self.map@.contains_key(x) && self.map@[x]@ =~= m0[x]@);
             assert(forall|a: T| a != x ==> (#[trigger] self.map@.contains_key(a) == m0.contains_key(a)) && (m0.contains_key(a) ==> self.map@[a] == m0[a]));
             assert forall|a: T, b: T| self.has(a, b) <==> old(self).has(a, b) by { }
             assert forall|a: T, b: T| self.has(a, b) <==> self.rev_has(a, b) by {
                 assert(old(self).has(a, b) <==> old(self).rev_has(a, b));
             }
         }
//@fn contains | r
       requires obeys_key_model::<T>(),
       ensures r == self.has(*x, *y),
//@closure 1 | s: &MyHashSet<T, BuildHasherDefault<FxHasher>> | r: bool
       ensures r == s@.contains(*y)
//@drop insert_by_ref iter_all count_estimate count_exact
//@end

} // verus!

fn main() {}
'''


def template():
    return TEMPLATE
