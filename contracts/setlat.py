"""Template for the set-lattice Verus unit (C16/C03): Set<T> and BoundedSet<BOUND, T> of ascent_base.

These two types have no structural notion of equality in specifications (their carrier is a BTreeSet), so the unit
annotates the real Lattice trait with a VIEW-based contract: an abstract equality `sl_same`, an abstract order
`sl_le` and the relations `sl_is_join / sl_is_meet`; the lattice laws are proved per impl for these relations and the
usual algebraic laws follow generically (up to `sl_same`).
"""

PRELUDE = r'''#![allow(unused_imports, dead_code, unused_variables, unused_mut, non_snake_case, unused_parens, unused_braces)]
#![feature(allocator_api)]
use vstd::prelude::*;
use vstd::std_specs::cmp::{PartialEqSpec, PartialOrdSpec, OrdSpec};
use vstd::std_specs::iter::IteratorSpec;
use vstd::laws_cmp::obeys_cmp;
use core::cmp::Ordering;
use std::collections::BTreeSet;
use std::hash::Hash;
use std::ops::Deref;

verus! {

pub open spec fn ord_le(o: Option<Ordering>) -> bool { o == Some(Ordering::Less) || o == Some(Ordering::Equal) }

// ---- ASSUMED contracts of BTreeSet operations vstd does not specify (TRUSTED, listed in the evidence) ----
#[verifier::external_body]
#[verifier::reject_recursive_types(T)]
#[verifier::reject_recursive_types(A)]
#[verifier::external_type_specification]
pub struct ExBTreeSetIntoIter<T, A: std::alloc::Allocator + Clone>(std::collections::btree_set::IntoIter<T, A>);

/// proved wrappers (NOT trusted) that make two vstd cardinality lemmas available to the solver automatically
pub mod setlemmas {
    use vstd::prelude::*;
    pub broadcast proof fn len_intersect_le<A>(a: Set<A>, b: Set<A>)
        requires a.finite(),
        ensures (#[trigger] a.intersect(b)).len() <= a.len(), a.intersect(b).finite(),
    { vstd::set_lib::lemma_len_intersect(a, b); }
    pub broadcast proof fn len_subset_le<A>(a: Set<A>, b: Set<A>)
        requires b.finite(), #[trigger] a.subset_of(b),
        ensures a.len() <= b.len(), a.finite(),
    { vstd::set_lib::lemma_len_subset(a, b); }
}

pub mod trusted {
    use super::*;
    // ASSUMED: btree_set::IntoIter is a lawful (prophetic) iterator
    pub broadcast proof fn axiom_btree_into_iter_lawful<T, A: std::alloc::Allocator + Clone>(d: std::collections::btree_set::IntoIter<T, A>)
        ensures #[trigger] d.obeys_prophetic_iter_laws()
    { admit(); }
    // ASSUMED: BTreeSet's PartialEq is equality of the element sets
    pub broadcast proof fn axiom_btree_set_eq<T: Ord>(a: BTreeSet<T>, b: BTreeSet<T>)
        requires obeys_cmp::<T>(),
        ensures (#[trigger] a.eq_spec(&b)) <==> a@ == b@
    { admit(); }
    pub broadcast proof fn axiom_btree_set_obeys_eq<T: Ord>()
        requires obeys_cmp::<T>(),
        ensures #[trigger] <BTreeSet<T> as PartialEqSpec>::obeys_eq_spec()
    { admit(); }
}
broadcast use {trusted::axiom_btree_into_iter_lawful, trusted::axiom_btree_set_eq, trusted::axiom_btree_set_obeys_eq, setlemmas::len_intersect_le, setlemmas::len_subset_le};

// ASSUMED contract of BTreeSet::into_iter (by value): yields every element exactly once, terminates
pub assume_specification<T, A: std::alloc::Allocator + Clone> [<BTreeSet<T, A> as IntoIterator>::into_iter] (s: BTreeSet<T, A>) -> (d: std::collections::btree_set::IntoIter<T, A>)
    ensures
        d.will_return_none(),
        d.decrease() is Some,
        d.remaining().no_duplicates(),
        d.remaining().to_set() == s@,
;
// ASSUMED contracts of is_subset / is_superset
pub assume_specification<T: Ord, A: std::alloc::Allocator + Clone> [BTreeSet::<T, A>::is_subset] (a: &BTreeSet<T, A>, b: &BTreeSet<T, A>) -> (r: bool)
    ensures obeys_cmp::<T>() ==> r == a@.subset_of(b@),
;
pub assume_specification<T: Ord, A: std::alloc::Allocator + Clone> [BTreeSet::<T, A>::is_superset] (a: &BTreeSet<T, A>, b: &BTreeSet<T, A>) -> (r: bool)
    ensures obeys_cmp::<T>() ==> r == b@.subset_of(a@),
;

// ------------------------------------------------------------------------------------------------
// The oracle: the Lattice trait of /repo with the property statement as a view-based contract.

//@trait ascent_base lattice | Lattice
    /// hypotheses on type parameters
    spec fn sl_wf() -> bool;
    /// representation invariant of values of the type (e.g. a BoundedSet holds at most BOUND elements)
    spec fn sl_inv(&self) -> bool;
    /// same abstract value
    spec fn sl_same(&self, o: &Self) -> bool;
    /// the abstract order
    spec fn sl_le(&self, o: &Self) -> bool;
    /// r is the join / meet of a and b
    spec fn sl_is_join(a: &Self, b: &Self, r: &Self) -> bool;
    spec fn sl_is_meet(a: &Self, b: &Self, r: &Self) -> bool;

    proof fn law_same(a: Self, b: Self, c: Self)
        requires Self::sl_wf(),
        ensures
            a.sl_same(&a),
            a.sl_same(&b) ==> b.sl_same(&a),
            a.sl_same(&b) && b.sl_same(&c) ==> a.sl_same(&c),
            a.sl_same(&b) ==> (a.sl_le(&c) <==> b.sl_le(&c)) && (c.sl_le(&a) <==> c.sl_le(&b));
    proof fn law_order(a: Self, b: Self, c: Self)
        requires Self::sl_wf(),
        ensures
            a.sl_le(&a),
            a.sl_le(&b) && b.sl_le(&a) ==> a.sl_same(&b),
            a.sl_le(&b) && b.sl_le(&c) ==> a.sl_le(&c);
    /// a join of two values that satisfy the invariant exists (totality), is an upper bound and the least one
    proof fn law_join_lub(a: Self, b: Self, r: Self, c: Self)
        requires Self::sl_wf(), a.sl_inv(), b.sl_inv(), c.sl_inv(), Self::sl_is_join(&a, &b, &r),
        ensures
            a.sl_le(&r),
            b.sl_le(&r),
            a.sl_le(&c) && b.sl_le(&c) ==> r.sl_le(&c);
    proof fn law_meet_glb(a: Self, b: Self, r: Self, c: Self)
        requires Self::sl_wf(), a.sl_inv(), b.sl_inv(), c.sl_inv(), Self::sl_is_meet(&a, &b, &r),
        ensures
            r.sl_le(&a),
            r.sl_le(&b),
            c.sl_le(&a) && c.sl_le(&b) ==> c.sl_le(&r);
    /// the abstract order is the one the real partial_cmp implements
    proof fn law_ord_agrees(a: Self, b: Self)
        requires Self::sl_wf(),
        ensures
            Self::obeys_partial_cmp_spec(),
            a.sl_le(&b) <==> ord_le(a.partial_cmp_spec(&b)),
            a.partial_cmp_spec(&b) == Some(Ordering::Equal) <==> a.sl_same(&b),
            a.partial_cmp_spec(&b) == Some(Ordering::Greater) <==> (b.sl_le(&a) && !a.sl_same(&b));
//@fn meet_mut | changed
        requires Self::sl_wf(), old(self).sl_inv(), other.sl_inv(),
        ensures
            final(self).sl_inv(),
            Self::sl_is_meet(old(self), &other, final(self)),
            changed == !old(self).sl_same(final(self)),
//@fn join_mut | changed
        requires Self::sl_wf(), old(self).sl_inv(), other.sl_inv(),
        ensures
            final(self).sl_inv(),
            Self::sl_is_join(old(self), &other, final(self)),
            changed == !old(self).sl_same(final(self)),
//@fn meet | r
        requires Self::sl_wf(), self.sl_inv(), other.sl_inv(),
        ensures
            r.sl_inv(),
            Self::sl_is_meet(&self, &other, &r),
//@fn join | r
        requires Self::sl_wf(), self.sl_inv(), other.sl_inv(),
        ensures
            r.sl_inv(),
            Self::sl_is_join(&self, &other, &r),
//@end

//@trait ascent_base lattice | BoundedLattice
//@fn bottom | b
        requires Self::sl_wf(),
        ensures
            b.sl_inv(),
            forall|x: Self| x.sl_inv() ==> #[trigger] b.sl_le(&x),
//@fn top | t
        requires Self::sl_wf(),
        ensures
            t.sl_inv(),
            forall|x: Self| x.sl_inv() ==> #[trigger] x.sl_le(&t),
//@end

// ------------------------------------------------------------------------------------------------
// Laws that follow for every impl whose obligations discharge (up to sl_same)

pub proof fn derived_join_unique_commutative<L: Lattice>(a: L, b: L, r1: L, r2: L)
    requires L::sl_wf(), a.sl_inv(), b.sl_inv(), r1.sl_inv(), r2.sl_inv(), L::sl_is_join(&a, &b, &r1), L::sl_is_join(&b, &a, &r2),
    ensures r1.sl_same(&r2),
{
    L::law_join_lub(a, b, r1, r2);
    L::law_join_lub(b, a, r2, r1);
    L::law_order(r1, r2, r1);
}

pub proof fn derived_meet_unique_commutative<L: Lattice>(a: L, b: L, r1: L, r2: L)
    requires L::sl_wf(), a.sl_inv(), b.sl_inv(), r1.sl_inv(), r2.sl_inv(), L::sl_is_meet(&a, &b, &r1), L::sl_is_meet(&b, &a, &r2),
    ensures r1.sl_same(&r2),
{
    L::law_meet_glb(a, b, r1, r2);
    L::law_meet_glb(b, a, r2, r1);
    L::law_order(r1, r2, r1);
}

pub proof fn derived_join_idempotent<L: Lattice>(a: L, r: L)
    requires L::sl_wf(), a.sl_inv(), r.sl_inv(), L::sl_is_join(&a, &a, &r),
    ensures r.sl_same(&a),
{
    L::law_join_lub(a, a, r, a);
    L::law_order(a, a, a);
    L::law_order(r, a, r);
}

pub proof fn derived_join_associative<L: Lattice>(a: L, b: L, c: L, ab: L, l: L, bc: L, r: L)
    requires
        L::sl_wf(), a.sl_inv(), b.sl_inv(), c.sl_inv(), ab.sl_inv(), l.sl_inv(), bc.sl_inv(), r.sl_inv(),
        L::sl_is_join(&a, &b, &ab), L::sl_is_join(&ab, &c, &l), L::sl_is_join(&b, &c, &bc), L::sl_is_join(&a, &bc, &r),
    ensures l.sl_same(&r),
{
    L::law_join_lub(ab, c, l, r);
    L::law_join_lub(a, b, ab, r);
    L::law_join_lub(a, bc, r, l);
    L::law_join_lub(b, c, bc, l);
    L::law_order(a, ab, l);
    L::law_order(b, ab, l);
    L::law_order(b, bc, r);
    L::law_order(c, bc, r);
    L::law_order(l, r, l);
}

pub proof fn derived_absorption<L: Lattice>(a: L, b: L, m: L, r: L)
    requires L::sl_wf(), a.sl_inv(), b.sl_inv(), m.sl_inv(), r.sl_inv(), L::sl_is_meet(&a, &b, &m), L::sl_is_join(&a, &m, &r),
    ensures r.sl_same(&a),
{
    L::law_order(a, a, a);
    L::law_meet_glb(a, b, m, a);
    L::law_join_lub(a, m, r, a);
    L::law_order(r, a, r);
}

/// a <= b (the real partial_cmp)  iff  join(a,b) is b
pub proof fn derived_order_characterisation<L: Lattice>(a: L, b: L, r: L)
    requires L::sl_wf(), a.sl_inv(), b.sl_inv(), r.sl_inv(), L::sl_is_join(&a, &b, &r),
    ensures ord_le(a.partial_cmp_spec(&b)) <==> r.sl_same(&b),
{
    L::law_ord_agrees(a, b);
    L::law_order(b, b, b);
    L::law_join_lub(a, b, r, b);
    L::law_order(r, b, r);
    L::law_same(r, b, a);
}
'''

SET = r'''
// ------------------------------------------------------------------------------------------------
// Set<T>: subsets ordered by inclusion, join = union, meet = intersection

//@type ascent_base lattice::set | Set

impl<T: Eq + Hash + Ord> vstd::std_specs::cmp::PartialOrdSpecImpl for Set<T> {
    open spec fn obeys_partial_cmp_spec() -> bool { obeys_cmp::<T>() }
    open spec fn partial_cmp_spec(&self, other: &Self) -> Option<Ordering> {
        if self.0@ == other.0@ { Some(Ordering::Equal) }
        else if self.0@.subset_of(other.0@) { Some(Ordering::Less) }
        else if other.0@.subset_of(self.0@) { Some(Ordering::Greater) }
        else { None }
    }
}
//@impl ascent_base lattice::set | impl<T: Eq + Hash + Ord> PartialOrd for Set<T>
//@end

//@impl ascent_base lattice::set | impl<T: Eq + Hash + Ord> Lattice for Set<T>
    open spec fn sl_wf() -> bool { obeys_cmp::<T>() }
    open spec fn sl_inv(&self) -> bool { true }
    open spec fn sl_same(&self, o: &Self) -> bool { self.0@ == o.0@ }
    open spec fn sl_le(&self, o: &Self) -> bool { self.0@.subset_of(o.0@) }
    open spec fn sl_is_join(a: &Self, b: &Self, r: &Self) -> bool { r.0@ == a.0@.union(b.0@) }
    open spec fn sl_is_meet(a: &Self, b: &Self, r: &Self) -> bool { r.0@ == a.0@.intersect(b.0@) }
    proof fn law_same(a: Self, b: Self, c: Self) {}
    proof fn law_order(a: Self, b: Self, c: Self) { assert(a.0@.subset_of(b.0@) && b.0@.subset_of(a.0@) ==> a.0@ =~= b.0@); }
    proof fn law_join_lub(a: Self, b: Self, r: Self, c: Self) {}
    proof fn law_meet_glb(a: Self, b: Self, r: Self, c: Self) {}
    proof fn law_ord_agrees(a: Self, b: Self) { assert(a.0@.subset_of(b.0@) && b.0@.subset_of(a.0@) ==> a.0@ =~= b.0@); }
//@fn meet_mut
//@ghost start
        let ghost other0 = other.0@;
//@ghost before-loop 1
        let ghost probe = other.0@;
        proof { assert(self.0@ =~= vstd::set::Set::<T>::empty()); }
//@loop 1
         invariant
            obeys_cmp::<T>(),
            VERUS_it.seq().no_duplicates(),
            VERUS_it.seq().to_set() == old(self).0@,
            other.0@ == probe,
            probe == other0,
            // exactly the already-visited elements of the old receiver that the other set contains
            forall|x: T| #[trigger] self.0@.contains(x) <==> (probe.contains(x) && exists|j: int| 0 <= j < VERUS_it.index() && VERUS_it.seq()[j] == x),
//@ghost after-loop 1
        proof {
            assert(self.0@ =~= old(self).0@.intersect(other0));
            vstd::set_lib::lemma_len_subset(self.0@, old(self).0@);
            if self.0@.len() == old(self).0@.len() { vstd::set_lib::lemma_subset_equality(self.0@, old(self).0@); }
        }
//@fn join_mut
//@ghost start
        let ghost other0 = other.0@;
//@ghost before-loop 1
        let ghost acc0 = self.0@;
        let ghost drained = other.0@;
        proof { assert(acc0.union(drained) =~= old(self).0@.union(other0)); }
//@loop 1
         invariant
            obeys_cmp::<T>(),
            VERUS_it.seq().no_duplicates(),
            VERUS_it.seq().to_set() == drained,
            acc0.union(drained) =~= old(self).0@.union(other0),
            forall|x: T| #[trigger] self.0@.contains(x) <==> (acc0.contains(x) || exists|j: int| 0 <= j < VERUS_it.index() && VERUS_it.seq()[j] == x),
//@ghost after-loop 1
        proof {
            assert(self.0@ =~= old(self).0@.union(other0));
            vstd::set_lib::lemma_len_subset(old(self).0@, self.0@);
            if self.0@.len() == old(self).0@.len() { vstd::set_lib::lemma_subset_equality(old(self).0@, self.0@); }
        }
//@end
'''

BOUNDED_SET = r'''
// ------------------------------------------------------------------------------------------------
// BoundedSet<BOUND, T>: sets of at most BOUND elements plus TOP (None); joins that exceed the bound collapse to TOP

//@impl ascent_base lattice::set | impl<T: PartialEq + Eq + Hash + Ord> Default for Set<T>
//@fn default | r
        ensures obeys_cmp::<T>() ==> r.0@ == vstd::set::Set::<T>::empty(),
//@end
//@impl ascent_base lattice::set | impl<T: PartialEq + Eq + Hash + Ord> Deref for Set<T>
//@fn deref | r
        ensures *r == self.0,
//@end

//@type ascent_base lattice::bounded_set | BoundedSet | pubfields

pub open spec fn bs_inv<const BOUND: usize, T: PartialEq + Eq + Hash + Ord>(b: &BoundedSet<BOUND, T>) -> bool {
    match b.0 { None => true, Some(s) => s.0@.len() <= BOUND }
}

impl<const BOUND: usize, T: PartialEq + Eq + Hash + Ord> vstd::std_specs::cmp::PartialOrdSpecImpl for BoundedSet<BOUND, T> {
    open spec fn obeys_partial_cmp_spec() -> bool { obeys_cmp::<T>() }
    open spec fn partial_cmp_spec(&self, other: &Self) -> Option<Ordering> {
        match (self.0, other.0) {
            (None, None) => Some(Ordering::Equal),
            (None, Some(_)) => Some(Ordering::Greater),
            (Some(_), None) => Some(Ordering::Less),
            (Some(a), Some(b)) => vstd::std_specs::cmp::PartialOrdSpec::partial_cmp_spec(&a, &b),
        }
    }
}
//@impl ascent_base lattice::bounded_set | impl<const BOUND: usize, T: PartialEq + Eq + Hash + Ord> PartialOrd for BoundedSet<BOUND, T>
//@end

//@impl ascent_base lattice::bounded_set | impl<const BOUND: usize, T: PartialEq + Eq + Hash + Ord> BoundedSet<BOUND, T>
//@fn new | r
        requires obeys_cmp::<T>(),
        ensures r.0 is Some, r.0->Some_0.0@ == vstd::set::Set::<T>::empty(),
//@drop singleton from_set count contains is_top
//@end

//@impl ascent_base lattice::bounded_set | impl<const BOUND: usize, T: PartialEq + Eq + Hash + Ord> Lattice for BoundedSet<BOUND, T>
    open spec fn sl_wf() -> bool { obeys_cmp::<T>() }
    open spec fn sl_inv(&self) -> bool { bs_inv(self) }
    open spec fn sl_same(&self, o: &Self) -> bool {
        match (self.0, o.0) { (None, None) => true, (Some(a), Some(b)) => a.0@ == b.0@, _ => false }
    }
    open spec fn sl_le(&self, o: &Self) -> bool {
        match (self.0, o.0) { (_, None) => true, (None, Some(_)) => false, (Some(a), Some(b)) => a.0@.subset_of(b.0@) }
    }
    open spec fn sl_is_join(a: &Self, b: &Self, r: &Self) -> bool {
        match (a.0, b.0) {
            (Some(x), Some(y)) => if x.0@.union(y.0@).len() > BOUND { r.0 is None } else { r.0 is Some && r.0->Some_0.0@ == x.0@.union(y.0@) },
            _ => r.0 is None,
        }
    }
    open spec fn sl_is_meet(a: &Self, b: &Self, r: &Self) -> bool {
        match (a.0, b.0) {
            (None, None) => r.0 is None,
            (None, Some(y)) => r.0 is Some && r.0->Some_0.0@ == y.0@,
            (Some(x), None) => r.0 is Some && r.0->Some_0.0@ == x.0@,
            (Some(x), Some(y)) => r.0 is Some && r.0->Some_0.0@ == x.0@.intersect(y.0@),
        }
    }
    proof fn law_same(a: Self, b: Self, c: Self) {}
    proof fn law_order(a: Self, b: Self, c: Self) {
        match (a.0, b.0) { (Some(x), Some(y)) => { assert(x.0@.subset_of(y.0@) && y.0@.subset_of(x.0@) ==> x.0@ =~= y.0@); }, _ => {} }
    }
    proof fn law_join_lub(a: Self, b: Self, r: Self, c: Self) {
        match (a.0, b.0, c.0) {
            (Some(x), Some(y), Some(z)) => {
                if x.0@.subset_of(z.0@) && y.0@.subset_of(z.0@) {
                    vstd::set_lib::lemma_len_subset(x.0@.union(y.0@), z.0@);
                }
            },
            _ => {}
        }
    }
    proof fn law_meet_glb(a: Self, b: Self, r: Self, c: Self) {}
    proof fn law_ord_agrees(a: Self, b: Self) {
        match (a.0, b.0) { (Some(x), Some(y)) => { assert(x.0@.subset_of(y.0@) && y.0@.subset_of(x.0@) ==> x.0@ =~= y.0@); }, _ => {} }
    }
//@end

//@impl ascent_base lattice::bounded_set | impl<const BOUND: usize, T: PartialEq + Eq + Hash + Ord> BoundedLattice for BoundedSet<BOUND, T>
//@end

// non-vacuity of the hypotheses
pub proof fn set_wf_witness()
    ensures obeys_cmp::<u32>(), <Set<u32> as Lattice>::sl_wf(), <BoundedSet<3, u32> as Lattice>::sl_wf(),
{
    broadcast use vstd::laws_cmp::group_laws_cmp;
}
'''

EPILOGUE = '''
} // verus!
fn main() {}
'''


def template():
    return PRELUDE + SET + BOUNDED_SET + EPILOGUE
