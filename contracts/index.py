"""Template for the serial index unit (C19; subsets serve C01, C04, C05): contracts on the real functions of
ascent::internal and ascent::rel_index_read, spliced around the code extracted from /repo.

Abstract views: RelIndexType1 -> Map<K, Seq<V>> up to per-key concatenation order; full index -> Map<K,V>;
LatticeIndexType -> Map<K, Set<V>>; RelNoIndexType -> Seq<usize> up to concatenation order.
"""

PRELUDE = r'''#![allow(unused_imports, dead_code, unused_variables, unused_mut, non_snake_case, unused_parens, unused_braces)]
#![feature(allocator_api)]
use vstd::prelude::*;
use vstd::std_specs::iter::IteratorSpec;
use vstd::std_specs::hash::*;
use std::collections::{HashMap, HashSet};
use std::hash::{BuildHasherDefault, Hash, Hasher};
use core::slice::Iter;
use std::iter::Chain;

// ---- stand-ins for types of dependencies that cannot be linked into a single-file Verus run (TRUSTED) ----
/// stand-in for rustc_hash::FxHasher: only its identity as a hasher type matters to the contracts
pub struct FxHasher;
impl Default for FxHasher { fn default() -> Self { FxHasher } }
impl Hasher for FxHasher { fn finish(&self) -> u64 { 0 } fn write(&mut self, _b: &[u8]) {} }

verus! {

#[verifier::external_body]
#[verifier::external_type_specification]
pub struct ExFxHasher(FxHasher);

#[verifier::external_body]
#[verifier::reject_recursive_types(H)]
#[verifier::external_type_specification]
pub struct ExBuildHasherDefault<H>(std::hash::BuildHasherDefault<H>);

#[verifier::external_body]
#[verifier::reject_recursive_types(A)]
#[verifier::reject_recursive_types(K)]
#[verifier::reject_recursive_types(V)]
#[verifier::external_type_specification]
pub struct ExDrain<'a, K: 'a, V: 'a, A: std::alloc::Allocator>(std::collections::hash_map::Drain<'a, K, V, A>);

#[verifier::external_body]
#[verifier::reject_recursive_types(T)]
#[verifier::external_type_specification]
pub struct ExOnce<T>(std::iter::Once<T>);

#[verifier::external_body]
#[verifier::reject_recursive_types(A)]
#[verifier::reject_recursive_types(B)]
#[verifier::external_type_specification]
pub struct ExChain<A, B>(std::iter::Chain<A, B>);

#[verifier::external_body]
#[verifier::reject_recursive_types(T)]
#[verifier::external_type_specification]
pub struct ExOptionIntoIter<T>(std::option::IntoIter<T>);

#[verifier::external_body]
#[verifier::reject_recursive_types(I)]
#[verifier::external_type_specification]
pub struct ExFlatten<I: Iterator<Item: IntoIterator>>(std::iter::Flatten<I>);

/// s enumerates the map m: one entry per key, each entry a pair of m, every key present
pub open spec fn seq_enumerates_map<K, V>(s: Seq<(K, V)>, m: Map<K, V>) -> bool {
    &&& s.len() == m.len()
    &&& forall|i: int| 0 <= i < s.len() ==> m.contains_key((#[trigger] s[i]).0) && m[s[i].0] == s[i].1
    &&& forall|i: int, j: int| 0 <= i < j < s.len() ==> (#[trigger] s[i]).0 != (#[trigger] s[j]).0
    &&& forall|k: K| m.contains_key(k) ==> exists|i: int| 0 <= i < s.len() && (#[trigger] s[i]).0 == k
}

pub mod trusted {
    use super::*;
    // ASSUMED: BuildHasherDefault<FxHasher> builds hashers that make HashMap/HashSet behave as maps/sets
    pub broadcast proof fn axiom_fx_builds_valid_hashers()
        ensures #[trigger] builds_valid_hashers::<BuildHasherDefault<FxHasher>>()
    { admit(); }
    // ASSUMED: hash_map::Drain is a lawful (prophetic) iterator
    pub broadcast proof fn axiom_drain_is_lawful_iterator<'a, K, V, A: std::alloc::Allocator>(d: std::collections::hash_map::Drain<'a, K, V, A>)
        ensures #[trigger] d.obeys_prophetic_iter_laws()
    { admit(); }
    /// the value Default::default() returns
    pub uninterp spec fn default_value<V>() -> V;
    // ASSUMED: HashSet::default() is the empty set
    pub broadcast proof fn axiom_hashset_default_is_empty<T, S>()
        ensures (#[trigger] default_value::<HashSet<T, S>>())@ == Set::<T>::empty()
    { admit(); }
    /// the elements an IntoIterator argument yields (used by the spec of Extend::extend)
    pub uninterp spec fn spec_items<I: IntoIterator>(i: I) -> Set<I::Item>;
    // ASSUMED: a HashSet yields exactly its elements
    pub broadcast proof fn axiom_hashset_items<T, S>(s: HashSet<T, S>)
        ensures #[trigger] spec_items::<HashSet<T, S>>(s) == s@
    { admit(); }
}
use trusted::{default_value, spec_items};
broadcast use {trusted::axiom_fx_builds_valid_hashers, trusted::axiom_drain_is_lawful_iterator, trusted::axiom_hashset_default_is_empty, trusted::axiom_hashset_items};

// ASSUMED contract of HashMap::drain: empties the map and yields every entry exactly once
pub assume_specification<K, V, S, A> [std::collections::HashMap::<K, V, S, A>::drain] (m: &mut std::collections::HashMap<K, V, S, A>) -> (d: std::collections::hash_map::Drain<'_, K, V, A>)
    where A: std::alloc::Allocator,
    ensures
        final(m)@ == Map::<K, V>::empty(),
        d.will_return_none(),
        d.decrease() is Some,
        seq_enumerates_map(d.remaining(), old(m)@),
;

// ASSUMED contract of Entry::or_default (mirrors vstd's Entry::or_insert with the default value)
pub assume_specification<'a, K, V: Default> [std::collections::hash_map::Entry::<'a, K, V>::or_default] (e: std::collections::hash_map::Entry<'a, K, V>) -> (r: &'a mut V)
    ensures
        *r == (match e.value() { Some(v) => v, None => default_value::<V>() }),
        e.final_value() == Some(*final(r)),
;

// ASSUMED contract of <HashSet as Extend>::extend: set union with the yielded elements
pub assume_specification<T: Eq + Hash, S: std::hash::BuildHasher, A: std::alloc::Allocator, I: IntoIterator<Item = T>> [<HashSet<T, S, A> as Extend<T>>::extend::<I>] (s: &mut HashSet<T, S, A>, iter: I)
    ensures final(s)@ == old(s)@.union(spec_items::<I>(iter)),
;

// ASSUMED contract of std::iter::once
pub assume_specification<T> [std::iter::once] (x: T) -> (r: std::iter::Once<T>)
    ensures r.remaining() == seq![x],
;

// ---- hashbrown, modelled by std::collections::HashMap (TRUSTED: "hashbrown::HashMap behaves as std's HashMap on
// insert / contains_key / get / len / is_empty / reserve / drain / raw_entry_mut().from_key / RawVacantEntryMut::insert") ----
pub mod hashbrown {
    use super::*;
    #[verifier::reject_recursive_types(K)]
    #[verifier::reject_recursive_types(S)]
    pub struct HashMap<K, V, S> { pub inner: std::collections::HashMap<K, V, S> }
    pub mod hash_map {
        use super::*;
        #[verifier::reject_recursive_types(K)]
        #[verifier::reject_recursive_types(S)]
        pub struct RawEntryBuilderMut<'a, K, V, S> { pub map: &'a mut std::collections::HashMap<K, V, S> }
        #[verifier::reject_recursive_types(K)]
        #[verifier::reject_recursive_types(S)]
        pub struct RawOccupiedEntryMut<'a, K, V, S> { pub map: &'a mut std::collections::HashMap<K, V, S> }
        #[verifier::reject_recursive_types(K)]
        #[verifier::reject_recursive_types(S)]
        pub struct RawVacantEntryMut<'a, K, V, S> { pub map: &'a mut std::collections::HashMap<K, V, S> }
        #[verifier::reject_recursive_types(K)]
        #[verifier::reject_recursive_types(S)]
        pub enum RawEntryMut<'a, K, V, S> { Occupied(RawOccupiedEntryMut<'a, K, V, S>), Vacant(RawVacantEntryMut<'a, K, V, S>) }
        pub type Iter<'a, K, V> = std::collections::hash_map::Iter<'a, K, V>;

        impl<'a, K: Eq + Hash, V, S: std::hash::BuildHasher> RawEntryBuilderMut<'a, K, V, S> {
            pub fn from_key(self, k: &K) -> (r: RawEntryMut<'a, K, V, S>)
                requires obeys_key_model::<K>(), builds_valid_hashers::<S>(),
                ensures match r {
                    RawEntryMut::Occupied(o) => old(self.map)@.contains_key(*k) && *o.map == *old(self.map) && *final(o.map) == *final(self.map),
                    RawEntryMut::Vacant(o) => !old(self.map)@.contains_key(*k) && *o.map == *old(self.map) && *final(o.map) == *final(self.map),
                }
            {
                if self.map.contains_key(k) { RawEntryMut::Occupied(RawOccupiedEntryMut { map: self.map }) } else { RawEntryMut::Vacant(RawVacantEntryMut { map: self.map }) }
            }
        }
        impl<'a, K: Eq + Hash, V, S: std::hash::BuildHasher> RawVacantEntryMut<'a, K, V, S> {
            pub fn insert(self, k: K, v: V)
                requires obeys_key_model::<K>(), builds_valid_hashers::<S>(),
                ensures final(self.map)@ == old(self.map)@.insert(k, v)
            { self.map.insert(k, v); }
        }
    }
    impl<K, V, S> View for HashMap<K, V, S> {
        type V = Map<K, V>;
        open spec fn view(&self) -> Map<K, V> { self.inner@ }
    }
    impl<K: Eq + Hash, V, S: std::hash::BuildHasher> HashMap<K, V, S> {
        pub fn insert(&mut self, k: K, v: V) -> (r: Option<V>)
            requires obeys_key_model::<K>(), builds_valid_hashers::<S>(),
            ensures final(self)@ == old(self)@.insert(k, v)
        { self.inner.insert(k, v) }
        pub fn contains_key(&self, k: &K) -> (r: bool)
            requires obeys_key_model::<K>(), builds_valid_hashers::<S>(),
            ensures r == self@.contains_key(*k)
        { self.inner.contains_key(k) }
        pub fn get<'a>(&'a self, k: &K) -> (r: Option<&'a V>)
            requires obeys_key_model::<K>(), builds_valid_hashers::<S>(),
            ensures match r { Some(v) => self@.contains_key(*k) && *v == self@[*k], None => !self@.contains_key(*k) }
        { self.inner.get(k) }
        pub fn len(&self) -> (r: usize)
            requires obeys_key_model::<K>(), builds_valid_hashers::<S>(),
            ensures r == self@.len()
        { self.inner.len() }
        pub fn is_empty(&self) -> (r: bool)
            requires obeys_key_model::<K>(), builds_valid_hashers::<S>(),
            ensures r == (self@.len() == 0)
        { self.inner.len() == 0 }
        pub fn reserve(&mut self, n: usize)
            ensures final(self)@ == old(self)@
        { }
        pub fn drain(&mut self) -> (d: std::collections::hash_map::Drain<'_, K, V>)
            ensures
                final(self)@ == Map::<K, V>::empty(),
                d.will_return_none(),
                d.decrease() is Some,
                seq_enumerates_map(d.remaining(), old(self)@),
        { self.inner.drain() }
        pub fn raw_entry_mut(&mut self) -> (b: hash_map::RawEntryBuilderMut<'_, K, V, S>)
            ensures *b.map == old(self).inner, *final(b.map) == final(self).inner
        { hash_map::RawEntryBuilderMut { map: &mut self.inner } }
    }
}

'''

TYPES = r'''
//@alias ascent internal | RelIndexType1
//@alias ascent internal | RelIndexType
//@alias ascent internal | LatticeIndexType
//@alias ascent internal | HashBrownRelFullIndexType
//@alias ascent internal | RelFullIndexType
//@alias ascent internal | RelNoIndexType

/// r is the concatenation of a and b in one of the two orders (the order inside an index vector is not part of the contract)
pub open spec fn cat_either<V>(r: Seq<V>, a: Seq<V>, b: Seq<V>) -> bool { r == a + b || r == b + a }
'''

TRAITS = r'''
// ---------------------------------------------------------------------------------------------------------
// The traits of /repo with the multimap contracts of property C19.

//@trait ascent internal | RelIndexWrite
    spec fn iw_inv(&self) -> bool;
    /// what one insertion does to the abstract multimap
    spec fn iw_insert_post(pre: Self, key: Self::Key, value: Self::Value, post: Self) -> bool;
//@fn index_insert
        requires old(self).iw_inv(),
        ensures
            final(self).iw_inv(),
            Self::iw_insert_post(*old(self), key, value, *final(self)),
//@end

//@trait ascent internal | RelIndexMerge
    spec fn im_inv(&self) -> bool;
    spec fn im_empty(&self) -> bool;
    /// r holds exactly the entries of a plus the entries of b (symmetric in a and b)
    spec fn im_merged(a: Self, b: Self, r: Self) -> bool;
//@fn move_index_contents
        requires old(from).im_inv(), old(to).im_inv(),
        ensures
            final(from).im_inv(),
            final(to).im_inv(),
            final(from).im_empty(),
            Self::im_merged(*old(from), *old(to), *final(to)),
//@fn merge_delta_to_total_new_to_delta
        requires old(new).im_inv(), old(delta).im_inv(), old(total).im_inv(),
        ensures
            final(new).im_inv(), final(delta).im_inv(), final(total).im_inv(),
            // total = old total plus old delta
            Self::im_merged(*old(delta), *old(total), *final(total)),
            // delta = old new
            *final(delta) == *old(new),
            // new is empty
            final(new).im_empty(),
//@fn init
        ensures *final(new) == *old(new), *final(delta) == *old(delta), *final(total) == *old(total),
//@end

//@trait ascent internal | RelFullIndexRead
    spec fn fr_inv(&self) -> bool;
    spec fn fr_contains(&self, key: Self::Key) -> bool;
//@fn contains_key | r
        requires self.fr_inv(),
        ensures r == self.fr_contains(*key),
//@end

//@trait ascent internal | RelFullIndexWrite
    spec fn fw_inv(&self) -> bool;
    spec fn fw_contains(&self, key: Self::Key) -> bool;
    /// post is pre with (a clone of) key mapped to v
    spec fn fw_inserted(pre: &Self, key: Self::Key, v: Self::Value, post: &Self) -> bool;
    /// same abstract contents
    spec fn fw_unchanged(pre: &Self, post: &Self) -> bool;
//@fn insert_if_not_present | r
        requires old(self).fw_inv(),
        ensures
            final(self).fw_inv(),
            // true exactly for the first insertion of a key
            r == !old(self).fw_contains(*key),
            r ==> Self::fw_inserted(old(self), *key, v, final(self)),
            // an existing entry is never overwritten, no other key is touched
            !r ==> Self::fw_unchanged(old(self), final(self)),
//@end

//@trait ascent rel_index_read | RelIndexRead
    spec fn ir_inv(&self) -> bool;
    /// number of distinct keys
    spec fn ir_len(&self) -> nat;
    /// index_get returns Some iff the key is present, and the iterator ranges over exactly the stored values
    #[verifier::prophetic]
    spec fn ir_get_post(&self, key: Self::Key, r: Option<Self::IteratorType>) -> bool;
//@fn index_get | r
        requires self.ir_inv(),
        ensures self.ir_get_post(*key, r),
//@fn len_estimate | r
        requires self.ir_inv(),
        ensures r == self.ir_len(),
//@fn is_empty | r
        requires self.ir_inv(),
        ensures
            // "is the relation DEFINITELY empty": may answer false for an empty index, never true for a non-empty one
            r ==> self.ir_len() == 0,
//@end
'''

IMPLS = r'''
// ---------------------------------------------------------------------------------------------------------
// hash-vector index: HashMap<K, Vec<V>>

pub open spec fn t1_merged<K, V>(a: Map<K, Vec<V>>, b: Map<K, Vec<V>>, r: Map<K, Vec<V>>) -> bool {
    &&& forall|k: K| #[trigger] r.contains_key(k) <==> (a.contains_key(k) || b.contains_key(k))
    &&& forall|k: K| a.contains_key(k) && b.contains_key(k) ==> cat_either((#[trigger] r[k])@, a[k]@, b[k]@)
    &&& forall|k: K| a.contains_key(k) && !b.contains_key(k) ==> (#[trigger] r[k])@ == a[k]@
    &&& forall|k: K| !a.contains_key(k) && b.contains_key(k) ==> (#[trigger] r[k])@ == b[k]@
}

/// loop invariant of the drain loops: `s[..index]` (entries of the drained map f) have been merged into acc, which started as t0
pub open spec fn t1_drain_inv<K, V>(f: Map<K, Vec<V>>, t0: Map<K, Vec<V>>, s: Seq<(K, Vec<V>)>, index: int, acc: Map<K, Vec<V>>) -> bool {
    &&& seq_enumerates_map(s, f)
    &&& forall|key: K| #[trigger] acc.contains_key(key) <==> (t0.contains_key(key) || exists|j: int| 0 <= j < index && (#[trigger] s[j]).0 == key)
    &&& forall|key: K| t0.contains_key(key) && !(exists|j: int| 0 <= j < index && (#[trigger] s[j]).0 == key) ==> (#[trigger] acc[key])@ == t0[key]@
    &&& forall|j: int| 0 <= j < index && !t0.contains_key(s[j].0) ==> (#[trigger] acc[s[j].0])@ == s[j].1@
    &&& forall|j: int| 0 <= j < index && t0.contains_key(s[j].0) ==> cat_either((#[trigger] acc[s[j].0])@, t0[s[j].0]@, s[j].1@)
}

//@impl ascent internal | impl<K: Eq + Hash, V> RelIndexWrite for RelIndexType1<K, V>
    open spec fn iw_inv(&self) -> bool { obeys_key_model::<K>() }
    open spec fn iw_insert_post(pre: Self, key: K, value: V, post: Self) -> bool {
        &&& post@.dom() =~= pre@.dom().insert(key)
        &&& forall|k: K| k != key && #[trigger] pre@.contains_key(k) ==> post@[k] == pre@[k]
        &&& post@[key]@ =~= (if pre@.contains_key(key) { pre@[key]@.push(value) } else { seq![value] })
    }
//@end

//@impl ascent internal | impl<K: Eq + Hash, V> RelIndexMerge for RelIndexType1<K, V>
    open spec fn im_inv(&self) -> bool { obeys_key_model::<K>() }
    open spec fn im_empty(&self) -> bool { self@ == Map::<K, Vec<V>>::empty() }
    open spec fn im_merged(a: Self, b: Self, r: Self) -> bool { t1_merged(a@, b@, r@) }
//@fn move_index_contents
//@loop 1
         invariant
            obeys_key_model::<K>(),
            // the drained map is one of the two arguments and the accumulator started as the other one (whether or not a
            // size-based swap happened is not part of the contract)
            t1_drain_inv(old(from)@, old(to)@, VERUS_it.seq(), VERUS_it.index(), to@) || t1_drain_inv(old(to)@, old(from)@, VERUS_it.seq(), VERUS_it.index(), to@),
//@end

//@impl ascent rel_index_read | impl<'a, K: Eq + std::hash::Hash + 'a, V: Clone + 'a> RelIndexRead<'a> for RelIndexType1<K, V>
    open spec fn ir_inv(&self) -> bool { obeys_key_model::<K>() }
    open spec fn ir_len(&self) -> nat { self@.len() }
    #[verifier::prophetic]
    open spec fn ir_get_post(&self, key: K, r: Option<core::slice::Iter<'a, V>>) -> bool {
        match r {
            None => !self@.contains_key(key),
            Some(it) => {
                &&& self@.contains_key(key)
                &&& it.remaining().len() == self@[key]@.len()
                &&& forall|i: int| 0 <= i < it.remaining().len() ==> *(#[trigger] it.remaining()[i]) == self@[key]@[i]
            }
        }
    }
//@end

// ---------------------------------------------------------------------------------------------------------
// no-index: Vec<usize>

//@impl ascent internal | impl RelIndexWrite for RelNoIndexType
    open spec fn iw_inv(&self) -> bool { true }
    open spec fn iw_insert_post(pre: Self, key: (), value: usize, post: Self) -> bool { post@ == pre@.push(value) }
//@end

//@impl ascent internal | impl RelIndexMerge for RelNoIndexType
    open spec fn im_inv(&self) -> bool { true }
    open spec fn im_empty(&self) -> bool { self@.len() == 0 }
    open spec fn im_merged(a: Self, b: Self, r: Self) -> bool { cat_either(r@, a@, b@) }
//@end

// ---------------------------------------------------------------------------------------------------------
// lattice index: HashMap<K, HashSet<V>> (set-valued: re-inserting a row number is idempotent)

pub open spec fn lat_merged<K, V>(a: Map<K, Set<V>>, b: Map<K, Set<V>>, r: Map<K, Set<V>>) -> bool {
    &&& forall|k: K| #[trigger] r.contains_key(k) <==> (a.contains_key(k) || b.contains_key(k))
    &&& forall|k: K| a.contains_key(k) && b.contains_key(k) ==> #[trigger] r[k] =~= a[k].union(b[k])
    &&& forall|k: K| a.contains_key(k) && !b.contains_key(k) ==> #[trigger] r[k] =~= a[k]
    &&& forall|k: K| !a.contains_key(k) && b.contains_key(k) ==> #[trigger] r[k] =~= b[k]
}
pub open spec fn lat_view<K, V>(m: LatticeIndexType<K, V>) -> Map<K, Set<V>> {
    Map::new(m@.dom(), |k: K| m@[k]@)
}

//@impl ascent internal | impl<K: Eq + Hash, V: Hash + Eq> RelIndexWrite for LatticeIndexType<K, V>
    open spec fn iw_inv(&self) -> bool { obeys_key_model::<K>() && obeys_key_model::<V>() }
    open spec fn iw_insert_post(pre: Self, key: K, value: V, post: Self) -> bool {
        &&& post@.dom() =~= pre@.dom().insert(key)
        &&& forall|k: K| k != key && #[trigger] pre@.contains_key(k) ==> post@[k] == pre@[k]
        &&& post@[key]@ =~= (if pre@.contains_key(key) { pre@[key]@.insert(value) } else { Set::<V>::empty().insert(value) })
    }
//@end

//@impl ascent internal | impl<K: Eq + Hash, V: Hash + Eq> RelIndexMerge for LatticeIndexType<K, V>
    open spec fn im_inv(&self) -> bool { obeys_key_model::<K>() && obeys_key_model::<V>() }
    open spec fn im_empty(&self) -> bool { self@ == Map::<K, HashSet<V, BuildHasherDefault<FxHasher>>>::empty() }
    open spec fn im_merged(a: Self, b: Self, r: Self) -> bool { lat_merged(lat_view(a), lat_view(b), lat_view(r)) }
//@fn move_index_contents
//@loop 1
         invariant
            obeys_key_model::<K>(), obeys_key_model::<V>(),
            seq_enumerates_map(VERUS_it.seq(), old(hm1)@),
            forall|key: K| #[trigger] hm2@.contains_key(key) <==> (old(hm2)@.contains_key(key) || exists|j: int| 0 <= j < VERUS_it.index() && (#[trigger] VERUS_it.seq()[j]).0 == key),
            forall|key: K| old(hm2)@.contains_key(key) && !(exists|j: int| 0 <= j < VERUS_it.index() && (#[trigger] VERUS_it.seq()[j]).0 == key) ==> (#[trigger] hm2@[key])@ == old(hm2)@[key]@,
            forall|j: int| 0 <= j < VERUS_it.index() && !old(hm2)@.contains_key(VERUS_it.seq()[j].0) ==> (#[trigger] hm2@[VERUS_it.seq()[j].0])@ =~= VERUS_it.seq()[j].1@,
            forall|j: int| 0 <= j < VERUS_it.index() && old(hm2)@.contains_key(VERUS_it.seq()[j].0) ==> (#[trigger] hm2@[VERUS_it.seq()[j].0])@ =~= old(hm2)@[VERUS_it.seq()[j].0]@.union(VERUS_it.seq()[j].1@),
//@end

// ---------------------------------------------------------------------------------------------------------
// full index: hashbrown::HashMap<K, V> (the relation's tuple set)

pub open spec fn full_merged<K, V>(a: Map<K, V>, b: Map<K, V>, r: Map<K, V>) -> bool {
    &&& forall|k: K| #[trigger] r.contains_key(k) <==> (a.contains_key(k) || b.contains_key(k))
    &&& forall|k: K| #[trigger] r.contains_key(k) ==> (a.contains_key(k) && r[k] == a[k]) || (b.contains_key(k) && r[k] == b[k])
}

pub open spec fn full_drain_inv<K, V>(f: Map<K, V>, t0: Map<K, V>, s: Seq<(K, V)>, index: int, acc: Map<K, V>) -> bool {
    &&& seq_enumerates_map(s, f)
    &&& forall|key: K| #[trigger] acc.contains_key(key) <==> (t0.contains_key(key) || exists|j: int| 0 <= j < index && (#[trigger] s[j]).0 == key)
    &&& forall|key: K| #[trigger] acc.contains_key(key) ==> (t0.contains_key(key) && acc[key] == t0[key]) || (f.contains_key(key) && acc[key] == f[key])
}

//@impl ascent internal | impl<K: Eq + Hash, V> RelIndexWrite for HashBrownRelFullIndexType<K, V>
    open spec fn iw_inv(&self) -> bool { obeys_key_model::<K>() }
    open spec fn iw_insert_post(pre: Self, key: K, value: V, post: Self) -> bool { post@ == pre@.insert(key, value) }
//@end

//@impl ascent internal | impl<K: Eq + Hash, V> RelIndexMerge for HashBrownRelFullIndexType<K, V>
    open spec fn im_inv(&self) -> bool { obeys_key_model::<K>() }
    open spec fn im_empty(&self) -> bool { self@ == Map::<K, V>::empty() }
    open spec fn im_merged(a: Self, b: Self, r: Self) -> bool { full_merged(a@, b@, r@) }
//@fn move_index_contents
//@loop 1
         invariant
            obeys_key_model::<K>(),
            full_drain_inv(old(from)@, old(to)@, VERUS_it.seq(), VERUS_it.index(), to@) || full_drain_inv(old(to)@, old(from)@, VERUS_it.seq(), VERUS_it.index(), to@),
//@end

//@impl ascent internal | impl<K: Clone + Hash + Eq, V> RelFullIndexWrite for HashBrownRelFullIndexType<K, V>
    // hypothesis on the column type: Clone returns an equal value (as for every Copy / derive(Clone) tuple of such)
    open spec fn fw_inv(&self) -> bool { obeys_key_model::<K>() && forall|a: K, b: K| #[trigger] call_ensures(K::clone, (&a,), b) ==> a == b }
    open spec fn fw_contains(&self, key: K) -> bool { self@.contains_key(key) }
    open spec fn fw_inserted(pre: &Self, key: K, v: V, post: &Self) -> bool { post@ == pre@.insert(key, v) }
    open spec fn fw_unchanged(pre: &Self, post: &Self) -> bool { pre@ == post@ }
//@end

//@impl ascent internal | impl<K: Hash + Eq, V> RelFullIndexRead<'_> for HashBrownRelFullIndexType<K, V>
    open spec fn fr_inv(&self) -> bool { obeys_key_model::<K>() }
    open spec fn fr_contains(&self, key: K) -> bool { self@.contains_key(key) }
//@end

//@impl ascent rel_index_read | impl<'a, K: Eq + std::hash::Hash, V: 'a + Clone> RelIndexRead<'a> for HashBrownRelFullIndexType<K, V>
    open spec fn ir_inv(&self) -> bool { obeys_key_model::<K>() }
    open spec fn ir_len(&self) -> nat { self@.len() }
    #[verifier::prophetic]
    open spec fn ir_get_post(&self, key: K, r: Option<std::iter::Once<&'a V>>) -> bool {
        match r {
            None => !self@.contains_key(key),
            Some(it) => self@.contains_key(key) && it.remaining().len() == 1 && *it.remaining()[0] == self@[key],
        }
    }
//@end

// ---------------------------------------------------------------------------------------------------------
// combined total+delta view: only the two size functions are within reach (index_get / iter_all are iterator-adapter
// chains); they carry the run-time join-order and "definitely empty" decisions

//@type ascent rel_index_read | RelIndexCombined
//@impl ascent rel_index_read | impl<'a, Ind1, Ind2> RelIndexCombined<'a, Ind1, Ind2>
//@fn new | r
        ensures r.ind1 == ind1, r.ind2 == ind2,
//@end

// (the RelIndexRead impl of RelIndexCombined makes this Verus version panic in rust_to_vir_base (TyKind::Infer) on its
// Chain<Flatten<..>> associated type: it is decided by the loop-free Kani harness combined_* in harness/idxcheck instead)

//@impl ascent rel_index_read | impl<'a, K: Eq + std::hash::Hash, V: 'a + Clone> RelIndexRead<'a> for LatticeIndexType<K, V>
    open spec fn ir_inv(&self) -> bool { obeys_key_model::<K>() && obeys_key_model::<V>() }
    open spec fn ir_len(&self) -> nat { self@.len() }
    #[verifier::prophetic]
    open spec fn ir_get_post(&self, key: K, r: Option<std::collections::hash_set::Iter<'a, V>>) -> bool {
        match r {
            None => !self@.contains_key(key),
            Some(it) => {
                &&& self@.contains_key(key)
                &&& it.remaining().len() == self@[key]@.len()
                &&& it.remaining().no_duplicates()
                // every stored element is yielded; with equal length and no duplicates the iterator ranges over exactly the set
                &&& forall|x: V| self@[key]@.contains(x) ==> it.remaining().contains(&x)
            }
        }
    }
//@end

'''

RUN_RULE = r'''
// ---------------------------------------------------------------------------------------------------------
// C09: the segment-codegen wrapper is semantically transparent: run_rule(f) returns exactly what f() returns
//@fn ascent internal | run_rule | r
    requires f.requires(()),
    ensures f.ensures((), r),
//@end
'''

EPILOGUE = '''
} // verus!
fn main() {}
'''


def template():
    return PRELUDE + TYPES + TRAITS + IMPLS + RUN_RULE + EPILOGUE
