// Shared native runner (included by each harness crate's main.rs after `use <crate> as hc;`).
// Replays byte vectors (Kani counterexamples) on the real code and enumerates small domains exhaustively.
// A panic inside the code under test is reported as the failed obligation `no_panic`.
use hc::{registry, Report, VecSrc};
use std::panic::{catch_unwind, AssertUnwindSafe};

fn parse_list(s: &str) -> Vec<u8> {
   let s = s.trim();
   if s.is_empty() || s == "-" {
      return vec![];
   }
   s.split(',').map(|x| x.trim().parse::<u8>().expect("byte")).collect()
}

fn parse_alpha(s: &str) -> Vec<u8> {
   if let Some((a, b)) = s.split_once('-') {
      let a: u8 = a.trim().parse().unwrap();
      let b: u8 = b.trim().parse().unwrap();
      (a..=b).collect()
   } else {
      parse_list(s)
   }
}

/// returns (rejected, consumed, failed obligations, decoded values)
fn run_one(f: hc::Runner, bytes: &[u8]) -> (bool, usize, Vec<String>, Vec<String>) {
   let mut src = VecSrc::new(bytes.to_vec());
   let mut rep = Report::new();
   let res = catch_unwind(AssertUnwindSafe(|| f(&mut src, &mut rep)));
   let mut failed: Vec<String> = rep.failed.iter().map(|s| s.to_string()).collect();
   if res.is_err() && !src.rejected {
      failed.push("no_panic".to_string());
   }
   (src.rejected, src.pos, failed, rep.notes.clone())
}

fn main() {
   let args: Vec<String> = std::env::args().collect();
   let reg = registry();
   match args.get(1).map(|s| s.as_str()) {
      Some("list") => {
         for (n, _, k) in &reg {
            println!("{} {}", n, if *k { "kani" } else { "native" });
         }
      },
      Some("replay") => {
         let name = &args[2];
         let bytes = parse_list(args.get(3).map(|s| s.as_str()).unwrap_or(""));
         let f = reg.iter().find(|(n, _, _)| n == name).expect("unknown harness").1;
         let (rejected, consumed, failed, notes) = run_one(f, &bytes);
         if rejected {
            println!("REJECTED input violates generator assumptions");
            std::process::exit(3);
         }
         println!("CONSUMED {}", consumed);
         for n in &notes {
            println!("VALUES {}", n);
         }
         for o in &failed {
            println!("FAILED {}", o);
         }
         if failed.is_empty() {
            println!("PASSED");
         } else {
            std::process::exit(1);
         }
      },
      Some("exhaust") => {
         // exhaust <harness> <alphabet per byte position, ';'-separated; each 'a-b' or 'x,y,z'>
         std::panic::set_hook(Box::new(|_| {}));
         let name = &args[2];
         let alphas: Vec<Vec<u8>> =
            if args.get(3).map(|s| s.is_empty()).unwrap_or(true) { vec![] } else { args[3].split(';').map(parse_alpha).collect() };
         let n = alphas.len();
         let f = reg.iter().find(|(n, _, _)| n == name).expect("unknown harness").1;
         // crash localisation: with RUNNER_LAST_INPUT_FILE set, the input about to be evaluated is written (fixed width, offset 0)
         // to that file, so that after a crash of the code under test (stack overflow, abort) the driver can read the culprit
         let mut trace = std::env::var("RUNNER_LAST_INPUT_FILE").ok().and_then(|p| std::fs::File::create(p).ok());
         let mut idx = vec![0usize; n];
         let mut evals: u64 = 0;
         let mut rejected: u64 = 0;
         let mut failures: Vec<(String, Vec<u8>)> = vec![];
         loop {
            let bytes: Vec<u8> = idx.iter().enumerate().map(|(p, &i)| alphas[p][i]).collect();
            if let Some(tf) = trace.as_mut() {
               use std::io::{Seek, SeekFrom, Write};
               let mut line = bytes.iter().map(|x| x.to_string()).collect::<Vec<_>>().join(",");
               while line.len() < 96 {
                  line.push(' ');
               }
               let _ = tf.seek(SeekFrom::Start(0));
               let _ = tf.write_all(line.as_bytes());
            }
            let (rej, consumed, failed, _notes) = run_one(f, &bytes);
            if rej {
               rejected += 1;
            } else {
               evals += 1;
               for o in failed {
                  if !failures.iter().any(|(n, _)| *n == o) {
                     failures.push((o, bytes[..consumed.min(bytes.len())].to_vec()));
                  }
               }
            }
            let mut k = 0;
            loop {
               if k == n {
                  break;
               }
               idx[k] += 1;
               if idx[k] < alphas[k].len() {
                  break;
               }
               idx[k] = 0;
               k += 1;
            }
            if k == n {
               break;
            }
         }
         println!("EVALUATED {} REJECTED {}", evals, rejected);
         for (o, b) in &failures {
            println!("FAILED {} INPUT {}", o, b.iter().map(|x| x.to_string()).collect::<Vec<_>>().join(","));
         }
         if failures.is_empty() {
            println!("PASSED");
         } else {
            std::process::exit(1);
         }
      },
      _ => {
         eprintln!("usage: list | replay <harness> <b,b,..> | exhaust <harness> <alphabets>");
         std::process::exit(2);
      },
   }
}
