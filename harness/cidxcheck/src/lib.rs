//! BOUNDED stand-in for the concurrent index types of C19 (CRelIndex, CRelFullIndex, CLatIndex, CRelNoIndex):
//! the executable form of the multimap contracts over the REAL types (path dependency on /repo, feature `par`),
//! evaluated natively for every operation sequence of a stated small shape -- sequentially, plus a fixed number of
//! sampled thread schedules for the "all concurrent inserts retained / exactly one insert-if-absent wins" clauses.
//! Neither Kani (no threads, DashMap cost) nor Verus (would need the code rewritten over permission types) applies;
//! nothing here is counted as proved.

use ascent::internal::{
   CLatIndex, CRelFullIndex, CRelFullIndexWrite, CRelIndex, CRelIndexRead, CRelIndexReadAll, CRelIndexWrite, CRelNoIndex, Freezable,
   RelFullIndexRead, RelFullIndexWrite, RelIndexMerge, RelIndexRead, RelIndexReadAll, RelIndexWrite,
};
use rayon::iter::ParallelIterator;
use std::collections::BTreeMap;

pub trait Src {
   fn byte(&mut self) -> u8;
   fn require(&mut self, cond: bool);
}
pub struct VecSrc {
   pub bytes: Vec<u8>,
   pub pos: usize,
   pub rejected: bool,
}
impl VecSrc {
   pub fn new(bytes: Vec<u8>) -> Self { VecSrc { bytes, pos: 0, rejected: false } }
}
impl Src for VecSrc {
   fn byte(&mut self) -> u8 {
      let b = self.bytes.get(self.pos).copied().unwrap_or(0);
      self.pos += 1;
      b
   }
   fn require(&mut self, cond: bool) {
      if !cond {
         self.rejected = true;
      }
   }
}
pub struct Report {
   pub failed: Vec<&'static str>,
   /// decoded input values (native replay only)
   pub notes: Vec<String>,
}
impl Report {
   pub fn new() -> Self { Report { failed: vec![], notes: vec![] } }
   #[cfg(not(kani))]
   pub fn note(&mut self, s: String) { if self.notes.len() < 8 { self.notes.push(s); } }
   pub fn check(&mut self, name: &'static str, ok: bool) {
      if !ok && !self.failed.contains(&name) {
         self.failed.push(name);
      }
   }
}
macro_rules! chk {
   ($r:expr, $name:literal, $cond:expr $(,)?) => {
      $r.check($name, $cond)
   };
}

type Model = BTreeMap<u8, Vec<u8>>;
fn sorted(mut v: Vec<u8>) -> Vec<u8> {
   v.sort();
   v
}
/// n (<= MAXN) triples (how, key, value); `how` selects the &mut (0) or the shared &self (1) insertion path
fn triples<const MAXN: usize>(s: &mut dyn Src) -> Vec<(u8, u8, u8)> {
   let n = s.byte();
   s.require((n as usize) <= MAXN);
   let mut out = vec![];
   for i in 0..MAXN {
      let h = s.byte();
      let k = s.byte();
      let v = s.byte();
      s.require(h < 2);
      if i < n as usize {
         out.push((h, k, v));
      }
   }
   out
}
fn model_union(a: &Model, b: &Model) -> Model {
   let mut r = a.clone();
   for (k, v) in b {
      r.entry(*k).or_default().extend(v.iter().cloned());
   }
   r
}
fn set_model(m: &Model) -> Model {
   m.iter().map(|(k, v)| { let mut v = v.clone(); v.sort(); v.dedup(); (*k, v) }).collect()
}

// ---- CRelIndex ---------------------------------------------------------------------------------------------------
fn build_cri(ts: &[(u8, u8, u8)]) -> (CRelIndex<u8, u8>, Model) {
   let mut ind = CRelIndex::<u8, u8>::default();
   let mut m = Model::new();
   for &(h, k, v) in ts {
      if h == 0 { RelIndexWrite::index_insert(&mut ind, k, v) } else { CRelIndexWrite::index_insert(&ind, k, v) }
      m.entry(k).or_default().push(v);
   }
   (ind, m)
}
/// `ind` must be frozen
fn cri_equals_model(ind: &CRelIndex<u8, u8>, m: &Model) -> bool {
   let mut ok = true;
   for k in 0..4u8 {
      let got = ind.index_get(&k).map(|it| sorted(it.cloned().collect()));
      let cgot = ind.c_index_get(&k).map(|it| sorted(it.cloned().collect()));
      let want = m.get(&k).map(|v| sorted(v.clone()));
      if got != want || cgot != want {
         ok = false;
      }
   }
   let mut all: Vec<(u8, Vec<u8>)> = ind.iter_all().map(|(k, it)| (*k, sorted(it.cloned().collect()))).collect();
   all.sort();
   let mut call: Vec<(u8, Vec<u8>)> = ind.c_iter_all().map(|(k, it)| (*k, sorted(it.cloned().collect()))).collect();
   call.sort();
   let want_all: Vec<(u8, Vec<u8>)> = m.iter().map(|(k, v)| (*k, sorted(v.clone()))).collect();
   ok && all == want_all && call == want_all && (!RelIndexRead::is_empty(ind) || m.is_empty()) && (RelIndexRead::is_empty(ind) == m.is_empty())
}
pub fn cri_ops<const N: usize>(s: &mut dyn Src, r: &mut Report) {
   let (mut a, ma) = build_cri(&triples::<N>(s));
   let (mut b, mb) = build_cri(&triples::<N>(s));
   a.freeze();
   chk!(r, "crelindex_lookup_returns_exactly_inserted_values_after_freeze", cri_equals_model(&a, &ma));
   a.unfreeze();
   a.freeze();
   chk!(r, "crelindex_freeze_unfreeze_preserve_contents", cri_equals_model(&a, &ma));
   a.unfreeze();
   RelIndexMerge::move_index_contents(&mut a, &mut b);
   a.freeze();
   b.freeze();
   chk!(r, "crelindex_move_leaves_from_empty", cri_equals_model(&a, &Model::new()));
   chk!(r, "crelindex_move_to_is_old_to_plus_old_from", cri_equals_model(&b, &model_union(&mb, &ma)));
}
/// the combined total+delta view over two (frozen) concurrent indices: serial and parallel lookups see the values of both
pub fn ccombined_ops<const N: usize>(s: &mut dyn Src, r: &mut Report) {
   use ascent::internal::RelIndexCombined;
   let (mut a, ma) = build_cri(&triples::<N>(s));
   let (mut b, mb) = build_cri(&triples::<N>(s));
   a.freeze();
   b.freeze();
   let c = RelIndexCombined::new(&a, &b);
   let un = model_union(&ma, &mb);
   let mut ok = true;
   for k in 0..4u8 {
      let got = c.index_get(&k).map(|it| sorted(it.cloned().collect()));
      let cgot = c.c_index_get(&k).map(|it| sorted(it.cloned().collect()));
      let want = un.get(&k).map(|v| sorted(v.clone()));
      if got != want || cgot != want {
         ok = false;
      }
   }
   chk!(r, "ccombined_lookup_sees_values_of_both_indices_each_once", ok);
   // iter_all / c_iter_all yield one entry per (index, key): merge per key before comparing
   let mut acc = Model::new();
   for (k, it) in c.iter_all() {
      acc.entry(*k).or_default().extend(it.cloned());
   }
   let mut cacc = Model::new();
   for (k, vs) in c.c_iter_all().map(|(k, it)| (*k, it.cloned().collect::<Vec<u8>>())).collect::<Vec<_>>() {
      cacc.entry(k).or_default().extend(vs);
   }
   let norm = |m: &Model| m.iter().map(|(k, v)| (*k, sorted(v.clone()))).collect::<Vec<_>>();
   chk!(r, "ccombined_iteration_returns_every_entry_of_both_once", norm(&acc) == norm(&un) && norm(&cacc) == norm(&un));
   chk!(r, "ccombined_is_empty_is_sound", !RelIndexRead::is_empty(&c) || un.is_empty());
}

pub fn cri_merge<const N: usize>(s: &mut dyn Src, r: &mut Report) {
   let (mut new, mn) = build_cri(&triples::<N>(s));
   let (mut delta, md) = build_cri(&triples::<N>(s));
   let (mut total, mt) = build_cri(&triples::<N>(s));
   RelIndexMerge::merge_delta_to_total_new_to_delta(&mut new, &mut delta, &mut total);
   new.freeze();
   delta.freeze();
   total.freeze();
   chk!(r, "crelindex_merge_total_is_old_total_plus_old_delta", cri_equals_model(&total, &model_union(&mt, &md)));
   chk!(r, "crelindex_merge_delta_is_old_new", cri_equals_model(&delta, &mn));
   chk!(r, "crelindex_merge_new_is_empty", cri_equals_model(&new, &Model::new()));
}

// ---- CLatIndex ---------------------------------------------------------------------------------------------------
fn build_cli(ts: &[(u8, u8, u8)]) -> (CLatIndex<u8, u8>, Model) {
   let mut ind = CLatIndex::<u8, u8>::default();
   let mut m = Model::new();
   for &(h, k, v) in ts {
      if h == 0 { RelIndexWrite::index_insert(&mut ind, k, v) } else { CRelIndexWrite::index_insert(&ind, k, v) }
      m.entry(k).or_default().push(v);
   }
   (ind, set_model(&m))
}
fn cli_equals_model(ind: &CLatIndex<u8, u8>, m: &Model) -> bool {
   let mut ok = RelIndexRead::len_estimate(ind) == m.len() && RelIndexRead::is_empty(ind) == m.is_empty();
   for k in 0..4u8 {
      let got = ind.index_get(&k).map(|it| sorted(it.cloned().collect()));
      let cgot = ind.c_index_get(&k).map(|it| sorted(it.cloned().collect()));
      let want = m.get(&k).cloned();
      if got != want || cgot != want {
         ok = false;
      }
   }
   let mut all: Vec<(u8, Vec<u8>)> = ind.iter_all().map(|(k, it)| (*k, sorted(it.collect()))).collect();
   all.sort();
   ok && all == m.iter().map(|(k, v)| (*k, v.clone())).collect::<Vec<_>>()
}
pub fn cli_ops<const N: usize>(s: &mut dyn Src, r: &mut Report) {
   let (mut a, ma) = build_cli(&triples::<N>(s));
   let (mut b, mb) = build_cli(&triples::<N>(s));
   a.freeze();
   chk!(r, "clatindex_lookup_exact_reinsertion_idempotent", cli_equals_model(&a, &ma));
   a.unfreeze();
   a.freeze();
   chk!(r, "clatindex_freeze_unfreeze_preserve_contents", cli_equals_model(&a, &ma));
   a.unfreeze();
   RelIndexMerge::move_index_contents(&mut a, &mut b);
   a.freeze();
   b.freeze();
   chk!(r, "clatindex_move_leaves_from_empty", cli_equals_model(&a, &Model::new()));
   chk!(r, "clatindex_move_to_is_per_key_union", cli_equals_model(&b, &set_model(&model_union(&mb, &ma))));
}

// ---- CRelFullIndex -----------------------------------------------------------------------------------------------
fn full_same(ind: &CRelFullIndex<u8, u8>, m: &BTreeMap<u8, u8>) -> bool {
   let mut ok = RelIndexRead::len_estimate(ind) == m.len() && RelIndexRead::is_empty(ind) == m.is_empty() && ind.exact_len() == m.len();
   for k in 0..4u8 {
      let got: Option<Vec<u8>> = ind.index_get(&k).map(|it| it.cloned().collect());
      let cgot: Option<Vec<u8>> = ind.c_index_get(&k).map(|it| it.cloned().collect());
      let want = m.get(&k).map(|v| vec![*v]);
      if got != want || cgot != want || RelFullIndexRead::contains_key(ind, &k) != m.contains_key(&k) || ind.get_cloned(&k) != m.get(&k).cloned() {
         ok = false;
      }
   }
   let mut all: Vec<(u8, u8)> = ind.iter_all().map(|(k, mut it)| (*k, it.next().unwrap())).collect();
   all.sort();
   let mut call: Vec<(u8, u8)> = ind.c_iter_all().map(|(k, it)| (*k, *it.collect::<Vec<_>>()[0])).collect();
   call.sort();
   let want: Vec<(u8, u8)> = m.iter().map(|(k, v)| (*k, *v)).collect();
   ok && all == want && call == want
}
pub fn cfull_ops<const N: usize>(s: &mut dyn Src, r: &mut Report) {
   let ps = triples::<N>(s);
   let qs = triples::<N>(s);
   let mut a = CRelFullIndex::<u8, u8>::default();
   let mut ma: BTreeMap<u8, u8> = BTreeMap::new();
   let mut ok_ret = true;
   for &(h, k, v) in &ps {
      let ret = if h == 0 { RelFullIndexWrite::insert_if_not_present(&mut a, &k, v) } else { CRelFullIndexWrite::insert_if_not_present(&a, &k, v) };
      if ret != !ma.contains_key(&k) {
         ok_ret = false;
      }
      ma.entry(k).or_insert(v);
   }
   chk!(r, "cfull_insert_if_not_present_true_exactly_for_first_insertion", ok_ret);
   a.freeze();
   chk!(r, "cfull_first_value_kept_lookups_exact_after_freeze", full_same(&a, &ma));
   a.unfreeze();
   a.freeze();
   chk!(r, "cfull_freeze_unfreeze_preserve_contents", full_same(&a, &ma));
   a.unfreeze();
   let mut b = CRelFullIndex::<u8, u8>::default();
   let mut mb: BTreeMap<u8, u8> = BTreeMap::new();
   for &(h, k, v) in &qs {
      let v = *ma.get(&k).unwrap_or(&v);
      if h == 0 { RelIndexWrite::index_insert(&mut b, k, v) } else { CRelIndexWrite::index_insert(&b, k, v) }
      mb.insert(k, v);
   }
   let mut un = ma.clone();
   for (k, v) in &mb {
      un.insert(*k, *v);
   }
   RelIndexMerge::move_index_contents(&mut a, &mut b);
   a.freeze();
   b.freeze();
   chk!(r, "cfull_move_leaves_from_empty", full_same(&a, &BTreeMap::new()));
   chk!(r, "cfull_move_keeps_every_key_of_both", full_same(&b, &un));
}

// ---- CRelNoIndex -------------------------------------------------------------------------------------------------
fn noidx_rows(ind: &CRelNoIndex<u8>) -> (Vec<u8>, Vec<u8>) {
   let a = sorted(ind.index_get(&()).map(|it| it.cloned().collect()).unwrap_or_default());
   let b = sorted(ind.c_index_get(&()).map(|it| it.cloned().collect()).unwrap_or_default());
   (a, b)
}
pub fn cnoidx_ops<const N: usize>(s: &mut dyn Src, r: &mut Report) {
   let ps = triples::<N>(s);
   let qs = triples::<N>(s);
   let mut a = CRelNoIndex::<u8>::default();
   let mut b = CRelNoIndex::<u8>::default();
   for &(h, _, v) in &ps {
      if h == 0 { RelIndexWrite::index_insert(&mut a, (), v) } else { CRelIndexWrite::index_insert(&a, (), v) }
   }
   for &(h, _, v) in &qs {
      if h == 0 { RelIndexWrite::index_insert(&mut b, (), v) } else { CRelIndexWrite::index_insert(&b, (), v) }
   }
   let wa = sorted(ps.iter().map(|t| t.2).collect());
   let wall = sorted(ps.iter().chain(qs.iter()).map(|t| t.2).collect());
   a.freeze();
   let (g1, g2) = noidx_rows(&a);
   chk!(r, "cnoindex_holds_every_inserted_row_once", g1 == wa && g2 == wa);
   a.unfreeze();
   RelIndexMerge::move_index_contents(&mut a, &mut b);
   a.freeze();
   b.freeze();
   let (e1, _) = noidx_rows(&a);
   let (t1, t2) = noidx_rows(&b);
   chk!(r, "cnoindex_move_leaves_from_empty", e1.is_empty());
   chk!(r, "cnoindex_move_to_holds_every_row_once", t1 == wall && t2 == wall);
}

// ---- sampled schedules: concurrent inserts are all retained; exactly one racing insert-if-absent wins ---------------
pub fn concurrent_samples(s: &mut dyn Src, r: &mut Report) {
   let rounds = s.byte() as usize;
   let threads = 4usize;
   for round in 0..rounds {
      let idx = CRelIndex::<u8, u8>::default();
      let lat = CLatIndex::<u8, u8>::default();
      let noi = CRelNoIndex::<u8>::default();
      let full = CRelFullIndex::<u8, u8>::default();
      let wins = std::sync::atomic::AtomicUsize::new(0);
      let barrier = std::sync::Barrier::new(threads);
      std::thread::scope(|sc| {
         for t in 0..threads {
            let (idx, lat, noi, full, wins, barrier) = (&idx, &lat, &noi, &full, &wins, &barrier);
            sc.spawn(move || {
               barrier.wait();
               for i in 0..8u8 {
                  let key = i % 3;
                  CRelIndexWrite::index_insert(idx, key, (t as u8) * 8 + i);
                  CRelIndexWrite::index_insert(lat, key, i % 4);
                  CRelIndexWrite::index_insert(noi, (), (t as u8) * 8 + i);
               }
               // every thread claims the same 64 keys in the same order: many races on absent keys
               for key in 0..64u8 {
                  if CRelFullIndexWrite::insert_if_not_present(full, &key, t as u8) {
                     wins.fetch_add(1, std::sync::atomic::Ordering::SeqCst);
                  }
               }
            });
         }
      });
      let mut idx = idx;
      let mut lat = lat;
      let mut noi = noi;
      let mut full = full;
      idx.freeze();
      lat.freeze();
      noi.freeze();
      full.freeze();
      let mut want = Model::new();
      for t in 0..threads as u8 {
         for i in 0..8u8 {
            want.entry(i % 3).or_default().push(t * 8 + i);
         }
      }
      chk!(r, "concurrent_inserts_into_crelindex_all_retained", cri_equals_model(&idx, &want));
      let mut lwant = Model::new();
      for i in 0..8u8 {
         lwant.entry(i % 3).or_default().push(i % 4);
      }
      chk!(r, "concurrent_inserts_into_clatindex_all_retained_as_sets", cli_equals_model(&lat, &set_model(&lwant)));
      let (rows, _) = noidx_rows(&noi);
      chk!(r, "concurrent_inserts_into_cnoindex_all_retained", rows == (0..32u8).collect::<Vec<_>>());
      chk!(r, "racing_insert_if_not_present_exactly_one_winner_per_key", wins.load(std::sync::atomic::Ordering::SeqCst) == 64 && full.exact_len() == 64);
      let _ = round;
   }
}

pub type Runner = fn(&mut dyn Src, &mut Report);
pub fn registry() -> Vec<(&'static str, Runner, bool)> {
   vec![
      ("crelindex_ops_le2", (|s, r| cri_ops::<2>(s, r)) as Runner, false),
      ("ccombined_ops_le2", (|s, r| ccombined_ops::<2>(s, r)) as Runner, false),
      ("crelindex_merge_le1", (|s, r| cri_merge::<1>(s, r)) as Runner, false),
      ("clatindex_ops_le2", (|s, r| cli_ops::<2>(s, r)) as Runner, false),
      ("cfull_ops_le2", (|s, r| cfull_ops::<2>(s, r)) as Runner, false),
      ("cnoindex_ops_le2", (|s, r| cnoidx_ops::<2>(s, r)) as Runner, false),
      ("concurrent_samples", (|s, r| concurrent_samples(s, r)) as Runner, false),
   ]
}
