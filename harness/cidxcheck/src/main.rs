use cidxcheck as hc;
include!("runner.rs");
