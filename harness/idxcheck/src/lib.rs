//! Executable forms of the index contracts of C19 on the REAL `ascent::internal` types (path dependency on /repo).
//!
//! * native: exhaustive enumeration of small operation sequences against a reference multimap -- the bounded
//!   search aid that produces a failing input when a Verus obligation of the index unit fails, replayed on the
//!   real code by construction;
//! * Kani: the combined total+delta view (`RelIndexCombined`) against ARBITRARY implementors of `RelIndexRead`
//!   (loop-free, complete), which this Verus version cannot process.

use ascent::internal::{
   LatticeIndexType, RelFullIndexRead, RelFullIndexType, RelFullIndexWrite, RelIndexCombined, RelIndexMerge, RelIndexRead,
   RelIndexReadAll, RelIndexType1, RelIndexWrite, RelNoIndexType,
};
use std::collections::BTreeMap;

pub trait Src {
   fn byte(&mut self) -> u8;
   fn require(&mut self, cond: bool);
}
pub struct VecSrc {
   pub bytes: Vec<u8>,
   pub pos: usize,
   pub rejected: bool,
}
impl VecSrc {
   pub fn new(bytes: Vec<u8>) -> Self { VecSrc { bytes, pos: 0, rejected: false } }
}
impl Src for VecSrc {
   fn byte(&mut self) -> u8 {
      let b = self.bytes.get(self.pos).copied().unwrap_or(0);
      self.pos += 1;
      b
   }
   fn require(&mut self, cond: bool) {
      if !cond {
         self.rejected = true;
      }
   }
}
#[cfg(kani)]
pub struct KaniSrc;
#[cfg(kani)]
impl Src for KaniSrc {
   fn byte(&mut self) -> u8 { kani::any() }
   fn require(&mut self, cond: bool) { kani::assume(cond) }
}
pub struct Report {
   pub failed: Vec<&'static str>,
   /// decoded input values (native replay only)
   pub notes: Vec<String>,
}
impl Report {
   pub fn new() -> Self { Report { failed: vec![], notes: vec![] } }
   #[cfg(not(kani))]
   pub fn note(&mut self, s: String) { if self.notes.len() < 8 { self.notes.push(s); } }
   pub fn check(&mut self, name: &'static str, ok: bool) {
      if !ok && !self.failed.contains(&name) {
         self.failed.push(name);
      }
   }
}
#[cfg(kani)]
macro_rules! chk {
   ($r:expr, $name:literal, $cond:expr $(,)?) => {{
      let _ = &$r;
      kani::assert($cond, $name);
   }};
}
#[cfg(not(kani))]
macro_rules! chk {
   ($r:expr, $name:literal, $cond:expr $(,)?) => {
      $r.check($name, $cond)
   };
}

type Model = BTreeMap<u8, Vec<u8>>;
fn sorted(mut v: Vec<u8>) -> Vec<u8> {
   v.sort();
   v
}

/// `n` (key, value) pairs; n is a byte <= MAXN, each pair two bytes (fixed width: MAXN pairs are always drawn)
fn pairs<const MAXN: usize>(s: &mut dyn Src) -> Vec<(u8, u8)> {
   let n = s.byte();
   s.require((n as usize) <= MAXN);
   let mut out = vec![];
   for i in 0..MAXN {
      let k = s.byte();
      let v = s.byte();
      if i < n as usize {
         out.push((k, v));
      }
   }
   out
}

// ---- hash-vector index -------------------------------------------------------------------------------------
fn build_t1(ps: &[(u8, u8)]) -> (RelIndexType1<u8, u8>, Model) {
   let mut ind = RelIndexType1::<u8, u8>::default();
   let mut m = Model::new();
   for &(k, v) in ps {
      ind.index_insert(k, v);
      m.entry(k).or_default().push(v);
   }
   (ind, m)
}
fn t1_equals_model(ind: &RelIndexType1<u8, u8>, m: &Model, keys: u8) -> bool {
   let mut ok = RelIndexRead::len_estimate(ind) == m.len();
   for k in 0..keys {
      let got = ind.index_get(&k).map(|it| sorted(it.cloned().collect()));
      let want = m.get(&k).map(|v| sorted(v.clone()));
      if got != want {
         ok = false;
      }
   }
   let mut all: Vec<(u8, Vec<u8>)> = ind.iter_all().map(|(k, it)| (*k, sorted(it.cloned().collect()))).collect();
   all.sort();
   let want_all: Vec<(u8, Vec<u8>)> = m.iter().map(|(k, v)| (*k, sorted(v.clone()))).collect();
   ok && all == want_all && (!RelIndexRead::is_empty(ind) || m.is_empty())
}
fn model_union(a: &Model, b: &Model) -> Model {
   let mut r = a.clone();
   for (k, v) in b {
      r.entry(*k).or_default().extend(v.iter().cloned());
   }
   r
}

pub fn t1_insert_get<const N: usize>(s: &mut dyn Src, r: &mut Report) {
   let ps = pairs::<N>(s);
   let (ind, m) = build_t1(&ps);
   chk!(r, "type1_lookup_returns_exactly_inserted_values_iteration_every_entry_once", t1_equals_model(&ind, &m, 4));
}
pub fn t1_move<const N: usize>(s: &mut dyn Src, r: &mut Report) {
   let (mut from, mf) = build_t1(&pairs::<N>(s));
   let (mut to, mt) = build_t1(&pairs::<N>(s));
   RelIndexMerge::move_index_contents(&mut from, &mut to);
   chk!(r, "type1_move_leaves_from_empty", from.is_empty());
   chk!(r, "type1_move_to_is_old_to_plus_old_from", t1_equals_model(&to, &model_union(&mt, &mf), 4));
}
pub fn t1_merge<const N: usize>(s: &mut dyn Src, r: &mut Report) {
   let (mut new, mn) = build_t1(&pairs::<N>(s));
   let (mut delta, md) = build_t1(&pairs::<N>(s));
   let (mut total, mt) = build_t1(&pairs::<N>(s));
   RelIndexMerge::merge_delta_to_total_new_to_delta(&mut new, &mut delta, &mut total);
   chk!(r, "type1_merge_total_is_old_total_plus_old_delta", t1_equals_model(&total, &model_union(&mt, &md), 4));
   chk!(r, "type1_merge_delta_is_old_new", t1_equals_model(&delta, &mn, 4));
   chk!(r, "type1_merge_new_is_empty", new.is_empty());
}

// ---- full index ----------------------------------------------------------------------------------------------
pub fn full_ops<const N: usize>(s: &mut dyn Src, r: &mut Report) {
   let ps = pairs::<N>(s);
   let qs = pairs::<N>(s);
   let mut a = RelFullIndexType::<u8, u8>::default();
   let mut ma: BTreeMap<u8, u8> = BTreeMap::new();
   let mut ok_ret = true;
   let mut ok_contains = true;
   for &(k, v) in &ps {
      let before = RelFullIndexRead::contains_key(&a, &k);
      if before != ma.contains_key(&k) {
         ok_contains = false;
      }
      let ret = a.insert_if_not_present(&k, v);
      if ret != !ma.contains_key(&k) {
         ok_ret = false;
      }
      ma.entry(k).or_insert(v);
   }
   chk!(r, "full_insert_if_not_present_true_exactly_for_first_insertion", ok_ret);
   chk!(r, "full_contains_key_is_exact", ok_contains);
   let same = |ind: &RelFullIndexType<u8, u8>, m: &BTreeMap<u8, u8>| {
      let mut ok = RelIndexRead::len_estimate(ind) == m.len();
      for k in 0..4u8 {
         let got: Option<Vec<u8>> = ind.index_get(&k).map(|it| it.cloned().collect());
         if got != m.get(&k).map(|v| vec![*v]) {
            ok = false;
         }
         if RelFullIndexRead::contains_key(ind, &k) != m.contains_key(&k) {
            ok = false;
         }
      }
      let mut all: Vec<(u8, u8)> = ind.iter_all().map(|(k, mut it)| (*k, *it.next().unwrap())).collect();
      all.sort();
      ok && all == m.iter().map(|(k, v)| (*k, *v)).collect::<Vec<_>>()
   };
   chk!(r, "full_first_value_kept_other_keys_untouched", same(&a, &ma));
   // second index with DISJOINT-or-equal contents, as in generated code (a tuple is in at most one of new/delta/total
   // unless equal): index_insert overwrites, so use equal values for shared keys
   let mut b = RelFullIndexType::<u8, u8>::default();
   let mut mb: BTreeMap<u8, u8> = BTreeMap::new();
   for &(k, v) in &qs {
      let v = *ma.get(&k).unwrap_or(&v);
      RelIndexWrite::index_insert(&mut b, k, v);
      mb.insert(k, v);
   }
   let mut un = ma.clone();
   for (k, v) in &mb {
      un.insert(*k, *v);
   }
   RelIndexMerge::move_index_contents(&mut a, &mut b);
   chk!(r, "full_move_leaves_from_empty", a.is_empty());
   chk!(r, "full_move_keeps_every_key_of_both", same(&b, &un));
}

// ---- lattice index -------------------------------------------------------------------------------------------
fn build_lat(ps: &[(u8, u8)]) -> (LatticeIndexType<u8, u8>, Model) {
   let mut ind = LatticeIndexType::<u8, u8>::default();
   let mut m = Model::new();
   for &(k, v) in ps {
      ind.index_insert(k, v);
      let e = m.entry(k).or_default();
      if !e.contains(&v) {
         e.push(v);
      }
   }
   (ind, m)
}
fn lat_equals_model(ind: &LatticeIndexType<u8, u8>, m: &Model) -> bool {
   let mut ok = RelIndexRead::len_estimate(ind) == m.len();
   for k in 0..4u8 {
      let got = ind.index_get(&k).map(|it| sorted(it.cloned().collect()));
      if got != m.get(&k).map(|v| sorted(v.clone())) {
         ok = false;
      }
   }
   ok
}
pub fn lat_ops<const N: usize>(s: &mut dyn Src, r: &mut Report) {
   let (mut a, ma) = build_lat(&pairs::<N>(s));
   chk!(r, "lattice_index_reinsertion_is_idempotent_lookup_exact", lat_equals_model(&a, &ma));
   let (mut b, mb) = build_lat(&pairs::<N>(s));
   let mut un = ma.clone();
   for (k, vs) in &mb {
      let e = un.entry(*k).or_default();
      for v in vs {
         if !e.contains(v) {
            e.push(*v);
         }
      }
   }
   RelIndexMerge::move_index_contents(&mut a, &mut b);
   chk!(r, "lattice_move_leaves_from_empty", a.is_empty());
   chk!(r, "lattice_move_to_is_per_key_union", lat_equals_model(&b, &un));
}

// ---- no index ------------------------------------------------------------------------------------------------
pub fn noindex_ops<const N: usize>(s: &mut dyn Src, r: &mut Report) {
   let ps = pairs::<N>(s);
   let qs = pairs::<N>(s);
   let mut a = RelNoIndexType::default();
   let mut b = RelNoIndexType::default();
   for &(_, v) in &ps {
      a.index_insert((), v as usize);
   }
   for &(_, v) in &qs {
      b.index_insert((), v as usize);
   }
   let mut want: Vec<usize> = ps.iter().chain(qs.iter()).map(|p| p.1 as usize).collect();
   want.sort();
   chk!(r, "noindex_insert_appends_every_row", a.len() == ps.len());
   RelIndexMerge::move_index_contents(&mut a, &mut b);
   let mut got = b.clone();
   got.sort();
   chk!(r, "noindex_move_leaves_from_empty", a.is_empty());
   chk!(r, "noindex_move_to_holds_every_row_once", got == want);
}

// ---- combined view against arbitrary implementors (Kani, loop-free) -----------------------------------------
pub struct Fake {
   pub len: usize,
   pub empty: bool,
   pub present: bool,
   pub items: [u8; 2],
   pub n: usize,
}
impl<'a> RelIndexRead<'a> for Fake {
   type Key = u8;
   type Value = u8;
   type IteratorType = std::iter::Take<std::array::IntoIter<u8, 2>>;
   fn index_get(&'a self, _key: &u8) -> Option<Self::IteratorType> {
      if self.present { Some(self.items.into_iter().take(self.n)) } else { None }
   }
   fn len_estimate(&'a self) -> usize { self.len }
   fn is_empty(&'a self) -> bool { self.empty }
}
fn fake(s: &mut dyn Src) -> Fake {
   let len = s.byte() as usize;
   let e = s.byte();
   let p = s.byte();
   let n = s.byte();
   s.require(e < 2 && p < 2 && n <= 2);
   Fake { len, empty: e == 1, present: p == 1, items: [s.byte(), s.byte()], n: n as usize }
}
pub fn combined_contract(s: &mut dyn Src, r: &mut Report) {
   let a = fake(s);
   let b = fake(s);
   let c = RelIndexCombined::new(&a, &b);
   chk!(r, "combined_len_estimate_is_sum", c.len_estimate() == a.len + b.len);
   chk!(r, "combined_is_empty_is_conjunction", c.is_empty() == (a.empty && b.empty));
   let got = c.index_get(&0);
   chk!(r, "combined_index_get_some_iff_either_has_key", got.is_some() == (a.present || b.present));
   if let Some(mut it) = got {
      // ind1's values first, then ind2's, each exactly once
      let mut ok = true;
      let mut i = 0;
      while i < 2 {
         if a.present && i < a.n && it.next() != Some(a.items[i]) { ok = false; }
         i += 1;
      }
      let mut i = 0;
      while i < 2 {
         if b.present && i < b.n && it.next() != Some(b.items[i]) { ok = false; }
         i += 1;
      }
      chk!(r, "combined_index_get_yields_values_of_both_each_once", ok && it.next().is_none());
   }
}

// ---- forwarding impls of rel_index_boilerplate.rs against an ARBITRARY implementor (Kani, loop-free) ------------
/// records which trait method was called with which arguments; answers from symbolic fields
pub struct Spy {
   pub id: u8,
   pub last: (u8, u8, u8),
   pub ret: bool,
   pub len: usize,
   pub empty: bool,
}
impl RelIndexWrite for Spy {
   type Key = u8;
   type Value = u8;
   fn index_insert(&mut self, key: u8, value: u8) { self.last = (1, key, value); }
}
impl RelFullIndexWrite for Spy {
   type Key = u8;
   type Value = u8;
   fn insert_if_not_present(&mut self, key: &u8, v: u8) -> bool {
      self.last = (2, *key, v);
      self.ret
   }
}
impl RelIndexMerge for Spy {
   fn move_index_contents(from: &mut Self, to: &mut Self) {
      from.last = (3, from.id, to.id);
      to.last = (3, from.id, to.id);
   }
   fn merge_delta_to_total_new_to_delta(new: &mut Self, delta: &mut Self, total: &mut Self) {
      new.last = (4, delta.id, total.id);
      delta.last = (4, new.id, total.id);
      total.last = (4, new.id, delta.id);
   }
   fn init(new: &mut Self, delta: &mut Self, total: &mut Self) {
      new.last = (5, delta.id, total.id);
      delta.last = (5, new.id, total.id);
      total.last = (5, new.id, delta.id);
   }
}
impl<'a> RelIndexRead<'a> for Spy {
   type Key = u8;
   type Value = u8;
   type IteratorType = std::iter::Once<u8>;
   fn index_get(&'a self, key: &u8) -> Option<Self::IteratorType> { if *key == 0 { None } else { Some(std::iter::once(*key ^ self.id)) } }
   fn len_estimate(&'a self) -> usize { self.len }
   fn is_empty(&'a self) -> bool { self.empty }
}
impl<'a> RelIndexReadAll<'a> for Spy {
   type Key = u8;
   type Value = u8;
   type ValueIteratorType = std::iter::Once<u8>;
   type AllIteratorType = std::iter::Once<(u8, std::iter::Once<u8>)>;
   fn iter_all(&'a self) -> Self::AllIteratorType { std::iter::once((self.id, std::iter::once(self.id ^ 0x5a))) }
}
impl<'a> RelFullIndexRead<'a> for Spy {
   type Key = u8;
   fn contains_key(&'a self, key: &u8) -> bool { *key == self.id }
}
fn spy(s: &mut dyn Src, id: u8) -> Spy {
   let r = s.byte();
   let e = s.byte();
   s.require(r < 2 && e < 2);
   Spy { id, last: (0, 0, 0), ret: r == 1, len: s.byte() as usize, empty: e == 1 }
}
fn via_write<W: RelIndexWrite<Key = u8, Value = u8>>(mut w: W, k: u8, v: u8) { w.index_insert(k, v) }
fn via_full_write<W: RelFullIndexWrite<Key = u8, Value = u8>>(mut w: W, k: u8, v: u8) -> bool { w.insert_if_not_present(&k, v) }
fn via_move<M: RelIndexMerge>(mut a: M, mut b: M) { M::move_index_contents(&mut a, &mut b) }
fn via_merge<M: RelIndexMerge>(mut a: M, mut b: M, mut c: M) { M::merge_delta_to_total_new_to_delta(&mut a, &mut b, &mut c) }
fn via_init<M: RelIndexMerge>(mut a: M, mut b: M, mut c: M) { M::init(&mut a, &mut b, &mut c) }
fn via_get<'a, R: RelIndexRead<'a, Key = u8, Value = u8>>(r: &'a R, k: u8) -> (Option<u8>, usize, bool) {
   (r.index_get(&k).map(|mut it| it.next().unwrap_or(0)), r.len_estimate(), r.is_empty())
}
fn via_all<'a, R: RelIndexReadAll<'a, Key = u8, Value = u8>>(r: &'a R) -> Option<(u8, Option<u8>)> { r.iter_all().next().map(|(k, mut it)| (k, it.next())) }
fn via_contains<'a, R: RelFullIndexRead<'a, Key = u8>>(r: &'a R, k: u8) -> bool { r.contains_key(&k) }

/// every forwarding impl calls exactly the same method of the wrapped implementor with the same arguments (in the same
/// order) and returns its answer unchanged
pub fn forwarders_contract(s: &mut dyn Src, r: &mut Report) {
   let k = s.byte();
   let v = s.byte();
   let mut a = spy(s, 1);
   let mut b = spy(s, 2);
   let mut c = spy(s, 3);
   via_write(&mut a, k, v);
   chk!(r, "forward_mut_ref_index_insert", a.last == (1, k, v));
   let ret = via_full_write(&mut b, k, v);
   chk!(r, "forward_mut_ref_insert_if_not_present", b.last == (2, k, v) && ret == b.ret);
   via_move(&mut a, &mut b);
   chk!(r, "forward_mut_ref_move_index_contents_same_argument_order", a.last == (3, 1, 2) && b.last == (3, 1, 2));
   via_merge(&mut a, &mut b, &mut c);
   chk!(r, "forward_mut_ref_merge_same_argument_order", a.last == (4, 2, 3) && b.last == (4, 1, 3) && c.last == (4, 1, 2));
   via_init(&mut a, &mut b, &mut c);
   chk!(r, "forward_mut_ref_init_same_argument_order", a.last == (5, 2, 3) && b.last == (5, 1, 3) && c.last == (5, 1, 2));
   let ra = &a;
   let (g, l, e) = via_get(&ra, k);
   chk!(r, "forward_ref_index_get", g == (if k == 0 { None } else { Some(k ^ 1) }));
   chk!(r, "forward_ref_len_estimate", l == a.len);
   chk!(r, "forward_ref_is_empty", e == a.empty);
   chk!(r, "forward_ref_iter_all", via_all(&ra) == Some((1, Some(1 ^ 0x5a))));
   chk!(r, "forward_ref_contains_key", via_contains(&ra, k) == (k == 1));
   #[cfg(not(kani))]
   {
      // the default data-structure provider hands out the very index it stores (ascent/src/rel.rs): identity views
      use ascent::internal::ToRelIndex;
      let mut t = ascent::rel::ToRelIndexType::<u8, u8>::default();
      t.0.index_insert(k, v);
      let p0: *const RelIndexType1<u8, u8> = &t.0;
      let same_r = std::ptr::eq(ToRelIndex::<()>::to_rel_index(&t, &()), p0);
      let same_w = std::ptr::eq(&*ToRelIndex::<()>::to_rel_index_write(&mut t, &mut ()), p0);
      chk!(r, "to_rel_index_type_views_are_the_stored_index", same_r && same_w);
      let mut x = RelIndexType1::<u8, u8>::default();
      let px: *const RelIndexType1<u8, u8> = &x;
      let ok1 = std::ptr::eq(ToRelIndex::<()>::to_rel_index(&x, &()), px) && std::ptr::eq(&*ToRelIndex::<()>::to_rel_index_write(&mut x, &mut ()), px);
      let mut f = RelFullIndexType::<u8, u8>::default();
      let pf: *const RelFullIndexType<u8, u8> = &f;
      let ok2 = std::ptr::eq(ToRelIndex::<()>::to_rel_index(&f, &()), pf) && std::ptr::eq(&*ToRelIndex::<()>::to_rel_index_write(&mut f, &mut ()), pf);
      chk!(r, "to_rel_index_of_plain_indices_is_identity", ok1 && ok2);
      // run_rule (segment-codegen wrapper): calls the closure exactly once and returns its result
      let mut calls = 0u32;
      let rv = ascent::internal::run_rule(|| {
         calls += 1;
         k.wrapping_add(v)
      });
      chk!(r, "run_rule_calls_closure_once_and_returns_its_result", calls == 1 && rv == k.wrapping_add(v));
   }
}

// ---- conformance of the ASSUMED contracts (trusted base of the Verus index / set units) with the real dependencies ----
/// Small-input cross-check, not a proof: hashbrown (with the real FxHasher) behaves as the std HashMap model on the
/// operations the index unit uses; HashMap::drain / Entry::or_default / HashSet::extend / iter::once and
/// BTreeSet::{into_iter, is_subset, is_superset, ==} satisfy the contracts assumed for them.
pub fn trusted_base_conformance<const N: usize>(s: &mut dyn Src, r: &mut Report) {
   use std::collections::{BTreeSet, HashMap, HashSet};
   let ps = pairs::<N>(s);
   let qs = pairs::<N>(s);
   // hashbrown vs std model
   let mut hb = RelFullIndexType::<u8, u8>::default();
   let mut sm: HashMap<u8, u8> = HashMap::new();
   let mut ok = true;
   for &(k, v) in &ps {
      if hb.contains_key(&k) != sm.contains_key(&k) || hb.get(&k) != sm.get(&k) || hb.len() != sm.len() || hb.is_empty() != sm.is_empty() {
         ok = false;
      }
      match hb.raw_entry_mut().from_key(&k) {
         ascent::hashbrown::hash_map::RawEntryMut::Occupied(_) => {
            if !sm.contains_key(&k) { ok = false; }
            hb.insert(k, v);
            sm.insert(k, v);
         },
         ascent::hashbrown::hash_map::RawEntryMut::Vacant(vac) => {
            if sm.contains_key(&k) { ok = false; }
            vac.insert(k, v);
            sm.insert(k, v);
         },
      }
   }
   hb.reserve(3);
   let mut d1: Vec<(u8, u8)> = hb.drain().collect();
   let mut d2: Vec<(u8, u8)> = sm.drain().collect();
   d1.sort();
   d2.sort();
   chk!(r, "assumed_hashbrown_behaves_as_std_hashmap_model", ok && d1 == d2 && hb.is_empty() && sm.is_empty());
   // HashMap::drain: every entry exactly once, map empty afterwards
   let (mut t1, m1) = build_t1(&ps);
   let mut drained: Vec<(u8, Vec<u8>)> = t1.drain().map(|(k, v)| (k, sorted(v))).collect();
   drained.sort();
   let want: Vec<(u8, Vec<u8>)> = m1.iter().map(|(k, v)| (*k, sorted(v.clone()))).collect();
   chk!(r, "assumed_hashmap_drain_yields_every_entry_once_and_empties", drained == want && t1.is_empty());
   // Entry::or_default == or_insert(Default::default())
   let mut a: HashMap<u8, Vec<u8>> = HashMap::new();
   let mut b: HashMap<u8, Vec<u8>> = HashMap::new();
   for &(k, v) in &ps {
      a.entry(k).or_default().push(v);
      b.entry(k).or_insert(Vec::new()).push(v);
   }
   chk!(r, "assumed_entry_or_default_is_or_insert_default", a == b);
   // HashSet::default is empty; extend is union
   let mut hs: HashSet<u8> = HashSet::default();
   let was_empty = hs.is_empty();
   let left: HashSet<u8> = ps.iter().map(|p| p.1).collect();
   let right: HashSet<u8> = qs.iter().map(|p| p.1).collect();
   hs.extend(left.clone());
   hs.extend(right.clone());
   chk!(r, "assumed_hashset_default_empty_and_extend_is_union", was_empty && hs == left.union(&right).cloned().collect());
   chk!(r, "assumed_iter_once_yields_its_argument_once", std::iter::once(7u8).collect::<Vec<_>>() == vec![7u8]);
   // BTreeSet assumed contracts of the set unit
   let x: BTreeSet<u8> = ps.iter().map(|p| p.1).collect();
   let y: BTreeSet<u8> = qs.iter().map(|p| p.1).collect();
   let sub = x.iter().all(|e| y.contains(e));
   let sup = y.iter().all(|e| x.contains(e));
   let items: Vec<u8> = x.clone().into_iter().collect();
   let mut dedup = items.clone();
   dedup.sort();
   dedup.dedup();
   chk!(r, "assumed_btreeset_subset_superset_eq_into_iter", x.is_subset(&y) == sub && x.is_superset(&y) == sup && (x == y) == (sub && sup)
      && dedup.len() == items.len() && items.len() == x.len() && items.iter().all(|e| x.contains(e)));
}

// ---- size sweeps: bucket lengths and map sizes far beyond the exhaustive enumerations (size-based branches, thresholds) ----
/// from = {0: [0..a)} + na singleton keys, to = {0: [100..100+b)} + nb singleton keys (a or b = 0: key 0 absent on that side);
/// bytes: a, b, na, nb
fn sweep_models(s: &mut dyn Src) -> (Vec<(u8, u8)>, Vec<(u8, u8)>) {
   let a = s.byte();
   let b = s.byte();
   let na = s.byte();
   let nb = s.byte();
   s.require(a <= 70 && b <= 70 && na <= 70 && nb <= 70);
   let mut ps = vec![];
   let mut qs = vec![];
   for i in 0..a { ps.push((0u8, i)); }
   for i in 0..b { qs.push((0u8, 100 + i)); }
   // extra keys: from uses 1..=na, to uses 40..40+nb (overlap when both are large: shared keys with singleton buckets)
   for i in 0..na { ps.push((1 + i, 200)); }
   for i in 0..nb { qs.push((40 + i, 201)); }
   (ps, qs)
}
fn t1_equals_model_all(ind: &RelIndexType1<u8, u8>, m: &Model) -> bool {
   let mut all: Vec<(u8, Vec<u8>)> = ind.iter_all().map(|(k, it)| (*k, sorted(it.cloned().collect()))).collect();
   all.sort();
   all == m.iter().map(|(k, v)| (*k, sorted(v.clone()))).collect::<Vec<_>>() && RelIndexRead::len_estimate(ind) == m.len()
}
pub fn t1_move_sweep(s: &mut dyn Src, r: &mut Report) {
   let (ps, qs) = sweep_models(s);
   let (mut from, mf) = build_t1(&ps);
   let (mut to, mt) = build_t1(&qs);
   RelIndexMerge::move_index_contents(&mut from, &mut to);
   chk!(r, "type1_move_leaves_from_empty", from.is_empty());
   chk!(r, "type1_move_to_is_old_to_plus_old_from", t1_equals_model_all(&to, &model_union(&mt, &mf)));
   // and through the default merge: total = total + delta, delta = new
   let (mut new, mn) = build_t1(&[(9, 9)]);
   let (mut delta, md) = build_t1(&ps);
   let (mut total, mtt) = build_t1(&qs);
   RelIndexMerge::merge_delta_to_total_new_to_delta(&mut new, &mut delta, &mut total);
   chk!(r, "type1_merge_total_is_old_total_plus_old_delta", t1_equals_model_all(&total, &model_union(&mtt, &md)));
   chk!(r, "type1_merge_delta_is_old_new", t1_equals_model_all(&delta, &mn) && new.is_empty());
}
pub fn lat_move_sweep(s: &mut dyn Src, r: &mut Report) {
   let (ps, qs) = sweep_models(s);
   // overlapping values so that unions are non-trivial: shift to's values for key 0 down by 100 - a/2
   let qs: Vec<(u8, u8)> = qs.iter().map(|&(k, v)| if k == 0 { (k, v - 100 + (ps.len() as u8 % 7)) } else { (k, v) }).collect();
   let (mut a, ma) = build_lat(&ps);
   let (mut b, mb) = build_lat(&qs);
   let mut un = ma.clone();
   for (k, vs) in &mb {
      let e = un.entry(*k).or_default();
      for v in vs { if !e.contains(v) { e.push(*v); } }
   }
   RelIndexMerge::move_index_contents(&mut a, &mut b);
   let mut all: Vec<(u8, Vec<u8>)> = b.iter_all().map(|(k, it)| (*k, sorted(it.cloned().collect()))).collect();
   all.sort();
   chk!(r, "lattice_move_leaves_from_empty", a.is_empty());
   chk!(r, "lattice_move_to_is_per_key_union", all == un.iter().map(|(k, v)| (*k, sorted(v.clone()))).collect::<Vec<_>>());
}
pub fn full_sweep_contract(s: &mut dyn Src, r: &mut Report) {
   let (ps, qs) = sweep_models(s);
   let mut a = RelFullIndexType::<u8, u8>::default();
   let mut b = RelFullIndexType::<u8, u8>::default();
   let mut ma: BTreeMap<u8, u8> = BTreeMap::new();
   let mut mb: BTreeMap<u8, u8> = BTreeMap::new();
   // full indices are keyed by the whole tuple: use the VALUE byte of the sweep as key so that sizes vary with a, b
   let mut ok_ret = true;
   for &(k, v) in &ps {
      let key = if k == 0 { v } else { k.wrapping_add(150) };
      if a.insert_if_not_present(&key, 1) != !ma.contains_key(&key) { ok_ret = false; }
      ma.entry(key).or_insert(1);
   }
   for &(k, v) in &qs {
      let key = if k == 0 { v - 100 + 30 } else { k.wrapping_add(150) };
      RelIndexWrite::index_insert(&mut b, key, 1);
      mb.insert(key, 1);
   }
   chk!(r, "full_insert_if_not_present_true_exactly_for_first_insertion", ok_ret);
   let mut un = ma.clone();
   for (k, v) in &mb { un.insert(*k, *v); }
   RelIndexMerge::move_index_contents(&mut a, &mut b);
   let mut all: Vec<(u8, u8)> = b.iter_all().map(|(k, mut it)| (*k, *it.next().unwrap())).collect();
   all.sort();
   chk!(r, "full_move_leaves_from_empty", a.is_empty());
   chk!(r, "full_move_keeps_every_key_of_both", all == un.iter().map(|(k, v)| (*k, *v)).collect::<Vec<_>>() && RelIndexRead::len_estimate(&b) == un.len());
}
pub fn noindex_sweep_contract(s: &mut dyn Src, r: &mut Report) {
   let (ps, qs) = sweep_models(s);
   let mut a = RelNoIndexType::default();
   let mut b = RelNoIndexType::default();
   for &(_, v) in &ps { a.index_insert((), v as usize); }
   for &(_, v) in &qs { b.index_insert((), v as usize); }
   let mut want: Vec<usize> = ps.iter().chain(qs.iter()).map(|p| p.1 as usize).collect();
   want.sort();
   RelIndexMerge::move_index_contents(&mut a, &mut b);
   let mut got = b.clone();
   got.sort();
   chk!(r, "noindex_move_leaves_from_empty", a.is_empty());
   chk!(r, "noindex_move_to_holds_every_row_once", got == want);
}

pub type Runner = fn(&mut dyn Src, &mut Report);

macro_rules! registry {
   (kani { $( $name:ident [$unwind:expr] => |$s:ident, $r:ident| $body:block ),* $(,)? }
    native { $( $nname:ident => |$ns:ident, $nr:ident| $nbody:block ),* $(,)? }) => {
      pub mod run {
         use super::*;
         $( pub fn $name($s: &mut dyn Src, $r: &mut Report) $body )*
         $( pub fn $nname($ns: &mut dyn Src, $nr: &mut Report) $nbody )*
      }
      pub fn registry() -> Vec<(&'static str, Runner, bool)> {
         vec![ $( (stringify!($name), run::$name as Runner, true), )* $( (stringify!($nname), run::$nname as Runner, false), )* ]
      }
      #[cfg(kani)]
      mod proofs {
         use super::*;
         $(
            #[kani::proof]
            #[kani::unwind($unwind)]
            fn $name() {
               let mut s = KaniSrc;
               let mut r = Report::new();
               run::$name(&mut s, &mut r);
            }
         )*
      }
   };
}

registry! {
kani {
   combined_view [4] => |s, r| { combined_contract(s, r) },
   forwarders [3] => |s, r| { forwarders_contract(s, r) },
}
native {
   type1_insert_get_le4 => |s, r| { t1_insert_get::<4>(s, r) },
   type1_move_le3 => |s, r| { t1_move::<3>(s, r) },
   type1_move_le5 => |s, r| { t1_move::<5>(s, r) },
   full_ops_le5 => |s, r| { full_ops::<5>(s, r) },
   lattice_ops_le5 => |s, r| { lat_ops::<5>(s, r) },
   type1_merge_le2 => |s, r| { t1_merge::<2>(s, r) },
   full_ops_le3 => |s, r| { full_ops::<3>(s, r) },
   lattice_ops_le3 => |s, r| { lat_ops::<3>(s, r) },
   noindex_ops_le3 => |s, r| { noindex_ops::<3>(s, r) },
   combined_view_native => |s, r| { combined_contract(s, r) },
   forwarders_native => |s, r| { forwarders_contract(s, r) },
   type1_move_sweep => |s, r| { t1_move_sweep(s, r) },
   lattice_move_sweep => |s, r| { lat_move_sweep(s, r) },
   full_move_sweep => |s, r| { full_sweep_contract(s, r) },
   noindex_move_sweep => |s, r| { noindex_sweep_contract(s, r) },
   trusted_base_conformance_le3 => |s, r| { trusted_base_conformance::<3>(s, r) },
}
}
