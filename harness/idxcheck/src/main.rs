use idxcheck as hc;
include!("runner.rs");
