// placeholder: overwritten on every run with items extracted verbatim from /repo/ascent_macro/src
