//! Bounded stand-in ([E<=n]) for two pure kernels of ascent_macro that neither Verus (construct rejected) nor CBMC
//! (does not terminate on nested Vec code at n = 3..4) can take: the functions in `extracted.rs` are copied VERBATIM
//! from /repo on every run; the contracts below are executable postconditions evaluated over a complete finite domain.
#![allow(dead_code, unused_imports)]
mod extracted;
use extracted::*;

fn admits(v: &MirRelationVersion, delta: bool) -> bool {
   match v {
      MirRelationVersion::Total => !delta,
      MirRelationVersion::Delta => delta,
      MirRelationVersion::TotalDelta => true,
      _ => false,
   }
}

/// versions_base(n): every vector has n entries drawn from {Total, Delta, TotalDelta}; every assignment of
/// {total, delta} to the n dynamic clauses with at least one delta is admitted by some returned vector (a rule
/// variant exists that evaluates it) -- completeness of semi-naive evaluation; none of them admits the all-total
/// assignment is NOT required (it would only be redundant work).
fn check_versions(max_n: usize) -> (u64, Vec<String>) {
   let mut evals = 0u64;
   let mut fails = vec![];
   for n in 0..=max_n {
      let vs = versions_base(n);
      for v in &vs {
         if v.len() != n && !fails.iter().any(|f: &String| f.starts_with("versions_len")) {
            fails.push(format!("versions_len_is_clause_count INPUT n={}", n));
         }
         if v.iter().any(|x| matches!(x, MirRelationVersion::New)) && !fails.iter().any(|f: &String| f.starts_with("versions_only")) {
            fails.push(format!("versions_only_total_delta_totaldelta INPUT n={}", n));
         }
      }
      for a in 1u64..(1u64 << n) {
         evals += 1;
         let covered = vs.iter().any(|v| v.len() == n && (0..n).all(|i| admits(&v[i], (a >> i) & 1 == 1)));
         if !covered && !fails.iter().any(|f: &String| f.starts_with("versions_cover")) {
            let asg: Vec<&str> = (0..n).map(|i| if (a >> i) & 1 == 1 { "delta" } else { "total" }).collect();
            fails.push(format!("versions_cover_every_assignment_with_a_delta INPUT n={} assignment={:?}", n, asg));
         }
      }
      if n > 0 && vs.is_empty() && !fails.iter().any(|f: &String| f.starts_with("versions_nonempty")) {
         fails.push(format!("versions_nonempty_for_dynamic_rules INPUT n={}", n));
      }
   }
   (evals, fails)
}

/// dedup_all_keep_last_by(vec, eq): result is a subsequence of the input; no two result elements are eq; every
/// input element has an eq element in the result; the survivor of each class is its LAST occurrence.
fn check_dedup(max_len: usize, alphabet: u8) -> (u64, Vec<String>) {
   let mut evals = 0u64;
   let mut fails: Vec<String> = vec![];
   let rels: [(&str, fn(&(u8, usize), &(u8, usize)) -> bool); 2] =
      [("eq", |a, b| a.0 == b.0), ("same_parity", |a, b| a.0 % 2 == b.0 % 2)];
   for len in 0..=max_len {
      let total = (alphabet as u64).pow(len as u32);
      for code in 0..total {
         let mut c = code;
         // elements are tagged with their position so that "which occurrence survived" is observable
         let input: Vec<(u8, usize)> = (0..len).map(|i| { let d = (c % alphabet as u64) as u8; c /= alphabet as u64; (d, i) }).collect();
         for (rname, rel) in rels.iter() {
            evals += 1;
            let mut out = input.clone();
            dedup_all_keep_last_by(&mut out, rel);
            let mut push = |name: &str| {
               if !fails.iter().any(|f| f.starts_with(name)) {
                  fails.push(format!("{} INPUT relation={} vec={:?} output={:?}", name, rname, input.iter().map(|x| x.0).collect::<Vec<_>>(), out));
               }
            };
            // subsequence (positions strictly increasing and elements unchanged)
            let mut ok_sub = true;
            for w in out.windows(2) { if !(w[0].1 < w[1].1) { ok_sub = false; } }
            for e in &out { if e.1 >= input.len() || input[e.1] != *e { ok_sub = false; } }
            if !ok_sub { push("dedup_result_is_subsequence_of_input"); }
            let mut dup = false;
            for i in 0..out.len() { for j in 0..i { if rel(&out[j], &out[i]) { dup = true; } } }
            if dup { push("dedup_result_has_no_two_equal_elements"); }
            if !input.iter().all(|x| out.iter().any(|y| rel(x, y))) { push("dedup_every_input_class_survives"); }
            // last occurrence wins (a later re-declaration of a relation wins)
            let last_ok = out.iter().all(|y| !input.iter().any(|x| x.1 > y.1 && rel(x, y)));
            if !last_ok { push("dedup_survivor_is_last_occurrence"); }
         }
      }
   }
   (evals, fails)
}

fn main() {
   let args: Vec<String> = std::env::args().collect();
   let what = args.get(1).map(|s| s.as_str()).unwrap_or("");
   if what == "versions-dump" {
      // versions-dump <n>: prints the version vectors of versions_base(n), one per line (T = Total, D = Delta, X = TotalDelta, N = New)
      let n: usize = args[2].parse().unwrap();
      for v in versions_base(n) {
         let s: String = v.iter().map(|x| match x { MirRelationVersion::Total => 'T', MirRelationVersion::Delta => 'D', MirRelationVersion::TotalDelta => 'X', _ => 'N' }).collect();
         println!("VEC {}", s);
      }
      return;
   }
   if what == "versions-check" {
      // versions-check <n> <assignment as string of t/d>: is this assignment admitted by some vector of versions_base(n)?
      let n: usize = args[2].parse().unwrap();
      let a: Vec<bool> = args[3].chars().map(|c| c == 'd').collect();
      let vs = versions_base(n);
      let covered = a.len() == n && vs.iter().any(|v| v.len() == n && (0..n).all(|i| admits(&v[i], a[i])));
      println!("EVALUATED 1 REJECTED 0");
      if covered { println!("PASSED"); } else { println!("FAILED versions_cover_every_assignment_with_a_delta INPUT n={} assignment={}", n, args[3]); std::process::exit(1); }
      return;
   }
   let (evals, fails) = match what {
      "versions" => check_versions(args[2].parse().unwrap()),
      "dedup" => check_dedup(args[2].parse().unwrap(), args[3].parse().unwrap()),
      _ => { eprintln!("usage: kernels versions <max_n> | dedup <max_len> <alphabet>"); std::process::exit(2); }
   };
   println!("EVALUATED {} REJECTED 0", evals);
   for f in &fails { println!("FAILED {}", f); }
   if fails.is_empty() { println!("PASSED"); } else { std::process::exit(1); }
}
