use aggcheck as hc;
include!("runner.rs");
