//! Contracts of the REAL `ascent::aggregators` functions (path dependency on /repo), stated as harness
//! pre/postconditions (their `impl Iterator` return types rule out `kani::ensures`).
//!
//! Kani: full value domain, input length bounded (stated per harness) -> bounded stand-in, except
//! `percentile_index` which is loop-free over all p in [0,100] and all lengths in the stated range.
//! Native: replay of counterexamples and exhaustive enumeration over small value domains / longer inputs.

use ascent::aggregators::{count, max, mean, min, not, percentile, sum};

pub mod p_index_extracted;

pub trait Src {
   fn byte(&mut self) -> u8;
   fn require(&mut self, cond: bool);
}
pub struct VecSrc {
   pub bytes: Vec<u8>,
   pub pos: usize,
   pub rejected: bool,
}
impl VecSrc {
   pub fn new(bytes: Vec<u8>) -> Self { VecSrc { bytes, pos: 0, rejected: false } }
}
impl Src for VecSrc {
   fn byte(&mut self) -> u8 {
      let b = self.bytes.get(self.pos).copied().unwrap_or(0);
      self.pos += 1;
      b
   }
   fn require(&mut self, cond: bool) {
      if !cond {
         self.rejected = true;
      }
   }
}
#[cfg(kani)]
pub struct KaniSrc;
#[cfg(kani)]
impl Src for KaniSrc {
   fn byte(&mut self) -> u8 { kani::any() }
   fn require(&mut self, cond: bool) { kani::assume(cond) }
}

pub struct Report {
   pub failed: Vec<&'static str>,
   /// decoded input values (native replay only)
   pub notes: Vec<String>,
}
impl Report {
   pub fn new() -> Self { Report { failed: vec![], notes: vec![] } }
   #[cfg(not(kani))]
   pub fn note(&mut self, s: String) { if self.notes.len() < 8 { self.notes.push(s); } }
   pub fn check(&mut self, name: &'static str, ok: bool) {
      if !ok && !self.failed.contains(&name) {
         self.failed.push(name);
      }
   }
}
#[cfg(kani)]
macro_rules! chk {
   ($r:expr, $name:literal, $cond:expr $(,)?) => {{
      let _ = &$r;
      kani::assert($cond, $name);
   }};
}
#[cfg(not(kani))]
macro_rules! chk {
   ($r:expr, $name:literal, $cond:expr $(,)?) => {
      $r.check($name, $cond)
   };
}

/// input: a length byte (<= N) followed by N element bytes; the aggregator sees the first `len` elements
fn input<const N: usize>(s: &mut dyn Src) -> ([u8; N], usize) {
   input_inner::<N>(s)
}
fn input_inner<const N: usize>(s: &mut dyn Src) -> ([u8; N], usize) {
   let len = s.byte();
   s.require((len as usize) <= N);
   let mut v = [0u8; N];
   let mut i = 0;
   while i < N {
      v[i] = s.byte();
      i += 1;
   }
   (v, len as usize)
}

/// collects at most 2 items: (first, whether a second item exists)
fn one<T>(mut it: impl Iterator<Item = T>) -> (Option<T>, bool) {
   let a = it.next();
   let more = it.next().is_some();
   (a, more)
}

pub fn min_max_contract<const N: usize>(s: &mut dyn Src, r: &mut Report) {
   let (v, len) = input::<N>(s);
   let xs = &v[..len];
   let (m, more) = one(min(xs.iter().map(|x| (x,))));
   chk!(r, "min_yields_at_most_one_value", !more);
   chk!(r, "min_yields_nothing_iff_input_empty", m.is_none() == (len == 0));
   let mut i = 0;
   let mut is_lb = true;
   let mut is_elem = false;
   while i < len {
      if let Some(m) = m {
         if !(m <= xs[i]) { is_lb = false; }
         if m == xs[i] { is_elem = true; }
      }
      i += 1;
   }
   chk!(r, "min_is_lower_bound_of_input", is_lb);
   chk!(r, "min_is_element_of_input", len == 0 || is_elem);
   let (m, more) = one(max(xs.iter().map(|x| (x,))));
   chk!(r, "max_yields_at_most_one_value", !more);
   chk!(r, "max_yields_nothing_iff_input_empty", m.is_none() == (len == 0));
   let mut i = 0;
   let mut is_ub = true;
   let mut is_elem = false;
   while i < len {
      if let Some(m) = m {
         if !(m >= xs[i]) { is_ub = false; }
         if m == xs[i] { is_elem = true; }
      }
      i += 1;
   }
   chk!(r, "max_is_upper_bound_of_input", is_ub);
   chk!(r, "max_is_element_of_input", len == 0 || is_elem);
}

pub fn sum_contract<const N: usize>(s: &mut dyn Src, r: &mut Report) {
   let (v, len) = input::<N>(s);
   // u64 carrier: no overflow possible for N <= 8 byte-sized values shifted into 32 bits
   let mut w = [0u64; N];
   let mut i = 0;
   let mut exact: u64 = 0;
   while i < N {
      w[i] = (v[i] as u64) << 24 | (v[i] as u64);
      if i < len { exact += w[i]; }
      i += 1;
   }
   let xs = &w[..len];
   let (m, more) = one(sum(xs.iter().map(|x| (x,))));
   chk!(r, "sum_yields_exactly_one_value", m.is_some() && !more);
   chk!(r, "sum_is_arithmetic_sum_zero_on_empty", m == Some(exact));
   // i16 carrier with negative values
   let mut z = [0i16; N];
   let mut i = 0;
   let mut exact: i16 = 0;
   while i < N {
      z[i] = (v[i] as i8) as i16;
      if i < len { exact += z[i]; }
      i += 1;
   }
   let zs = &z[..len];
   let (m, more) = one(sum(zs.iter().map(|x| (x,))));
   chk!(r, "sum_signed_yields_exactly_one_value", m.is_some() && !more);
   chk!(r, "sum_signed_is_arithmetic_sum", m == Some(exact));
}

pub fn count_contract<const N: usize>(s: &mut dyn Src, r: &mut Report) {
   let (v, len) = input::<N>(s);
   let t = s.byte();
   let xs = &v[..len];
   // exact size_hint (slice iterator)
   let (c, more) = one(count(xs.iter().map(|_| ())));
   chk!(r, "count_yields_exactly_one_value", c.is_some() && !more);
   chk!(r, "count_exact_hint_is_cardinality", c == Some(len));
   // inexact size_hint (filter): lower bound 0, upper bound len
   let mut expect = 0usize;
   let mut i = 0;
   while i < len {
      if xs[i] > t { expect += 1; }
      i += 1;
   }
   let (c, more) = one(count(xs.iter().filter(|x| **x > t).map(|_| ())));
   chk!(r, "count_inexact_hint_yields_exactly_one_value", c.is_some() && !more);
   chk!(r, "count_inexact_hint_is_cardinality", c == Some(expect));
   // an iterator whose size_hint lower bound is exact but upper bound is None
   let (c, _) = one(count(Unbounded { left: len }));
   chk!(r, "count_unbounded_hint_is_cardinality", c == Some(len));
   // an iterator whose hint is (k, Some(k+1)) style loose
   let (c, _) = one(count(Loose { left: len }));
   chk!(r, "count_loose_hint_is_cardinality", c == Some(len));
}
struct Unbounded { left: usize }
impl Iterator for Unbounded {
   type Item = ();
   fn next(&mut self) -> Option<()> { if self.left == 0 { None } else { self.left -= 1; Some(()) } }
   fn size_hint(&self) -> (usize, Option<usize>) { (self.left, None) }
}
struct Loose { left: usize }
impl Iterator for Loose {
   type Item = ();
   fn next(&mut self) -> Option<()> { if self.left == 0 { None } else { self.left -= 1; Some(()) } }
   fn size_hint(&self) -> (usize, Option<usize>) { (self.left / 2, Some(self.left + 1)) }
}

pub fn not_contract<const N: usize>(s: &mut dyn Src, r: &mut Report) {
   let (v, len) = input::<N>(s);
   let xs = &v[..len];
   let (c, more) = one(not(xs.iter().map(|_| ())));
   chk!(r, "not_yields_at_most_one_unit", !more);
   chk!(r, "not_yields_unit_iff_input_empty", c.is_some() == (len == 0));
}

pub fn mean_contract<const N: usize>(s: &mut dyn Src, r: &mut Report) {
   let (v, len) = input::<N>(s);
   let mut z = [0i16; N];
   let mut i = 0;
   let mut exact: i32 = 0;
   while i < N {
      z[i] = ((v[i] as i8) as i16) * 3;
      if i < len { exact += z[i] as i32; }
      i += 1;
   }
   let zs = &z[..len];
   let (m, more) = one(mean(zs.iter().map(|x| (x,))));
   chk!(r, "mean_yields_at_most_one_value", !more);
   chk!(r, "mean_yields_nothing_iff_input_empty", m.is_none() == (len == 0));
   if len > 0 {
      // all partial sums are small integers, hence exact in f64: the arithmetic mean is exact_sum / len
      chk!(r, "mean_is_arithmetic_mean", m == Some(exact as f64 / len as f64));
   }
}

/// `p` from two bytes: p = (hi * 256 + lo) / 512 * (100/128)... kept simple: p = k / 8 for k in 0..=800 (dyadic, exact in f64)
fn p_from(s: &mut dyn Src) -> f64 {
   let hi = s.byte();
   let lo = s.byte();
   let k = (hi as u32) * 256 + lo as u32;
   s.require(k <= 800);
   k as f64 / 8.0
}

/// end-to-end contract of percentile: an element of the input with rank floor(len*p/100) (clamped to the last) of the sorted input
pub fn percentile_contract<const N: usize>(s: &mut dyn Src, r: &mut Report) {
   let (v, len) = input::<N>(s);
   let p = p_from(s);
   #[cfg(not(kani))]
   r.note(format!("input = {:?}, p = {}", &v[..len], p));
   let xs = &v[..len];
   let f = percentile::<u8, _>(p);
   let (m, more) = one(f(xs.iter().map(|x| (x,))));
   chk!(r, "percentile_yields_at_most_one_value", !more);
   chk!(r, "percentile_yields_nothing_iff_input_empty", m.is_none() == (len == 0));
   if len > 0 {
      // rank by counting (no sort in the oracle): the element of rank k has at most k elements strictly below it
      // and more than k elements below-or-equal
      let k8 = (p * 8.0) as u64; // exact: p = k8 / 8
      let mut rank = (len as u64 * k8) / 800;
      if rank > len as u64 - 1 { rank = len as u64 - 1; }
      let m = m.unwrap_or(0);
      let mut below = 0u64;
      let mut below_eq = 0u64;
      let mut is_elem = false;
      let mut i = 0;
      while i < len {
         if xs[i] < m { below += 1; }
         if xs[i] <= m { below_eq += 1; }
         if xs[i] == m { is_elem = true; }
         i += 1;
      }
      chk!(r, "percentile_is_element_of_input", is_elem);
      chk!(r, "percentile_has_prescribed_rank", below <= rank && rank < below_eq);
   }
}

/// The index statement of `percentile`, extracted verbatim from /repo on every run (see p_index_extracted.rs):
/// for every p in [0,100] and every non-empty length in range the index is in bounds and is the prescribed rank.
pub fn percentile_index_contract(s: &mut dyn Src, r: &mut Report, max_len_log2: u32) {
   let mut lb = [0u8; 8];
   let mut i = 0;
   while i < 8 { lb[i] = s.byte(); i += 1; }
   let len = u64::from_le_bytes(lb) as usize;
   s.require(len >= 1 && (len as u64) <= (1u64 << max_len_log2));
   let mut pb = [0u8; 8];
   let mut i = 0;
   while i < 8 { pb[i] = s.byte(); i += 1; }
   let p = f64::from_le_bytes(pb);
   s.require(p >= 0.0 && p <= 100.0);
   let idx = p_index_extracted::p_index_of(len, p);
   chk!(r, "percentile_index_in_bounds_for_all_p_in_0_100", idx < len);
   if p == 0.0 { chk!(r, "percentile_index_p0_is_first", idx == 0); }
   if p == 100.0 { chk!(r, "percentile_index_p100_is_last", idx == len - 1); }
   if p == 50.0 { chk!(r, "percentile_index_p50_is_middle", idx == len / 2 || (len == 1 && idx == 0)); }
}

pub type Runner = fn(&mut dyn Src, &mut Report);

macro_rules! registry {
   ($( $name:ident [$unwind:expr] => |$s:ident, $r:ident| $body:block ),* $(,)?) => {
      pub mod run {
         use super::*;
         $( pub fn $name($s: &mut dyn Src, $r: &mut Report) $body )*
      }
      pub fn registry() -> Vec<(&'static str, Runner, bool)> {
         vec![ $( (stringify!($name), run::$name as Runner, true), )* ]
      }
      #[cfg(kani)]
      mod proofs {
         use super::*;
         $(
            #[kani::proof]
            #[kani::unwind($unwind)]
            fn $name() {
               let mut s = KaniSrc;
               let mut r = Report::new();
               run::$name(&mut s, &mut r);
            }
         )*
      }
   };
}

registry! {
   min_max_le3 [5] => |s, r| { min_max_contract::<3>(s, r) },
   min_max_le5 [7] => |s, r| { min_max_contract::<5>(s, r) },
   sum_le3 [5] => |s, r| { sum_contract::<3>(s, r) },
   sum_le5 [7] => |s, r| { sum_contract::<5>(s, r) },
   count_le3 [5] => |s, r| { count_contract::<3>(s, r) },
   count_le5 [7] => |s, r| { count_contract::<5>(s, r) },
   not_le3 [5] => |s, r| { not_contract::<3>(s, r) },
   mean_le2 [4] => |s, r| { mean_contract::<2>(s, r) },
   mean_le3 [5] => |s, r| { mean_contract::<3>(s, r) },
   mean_le6 [8] => |s, r| { mean_contract::<6>(s, r) },
   percentile_le4 [6] => |s, r| { percentile_contract::<4>(s, r) },
   percentile_le5 [7] => |s, r| { percentile_contract::<5>(s, r) },
   percentile_le6 [8] => |s, r| { percentile_contract::<6>(s, r) },
   min_max_le6 [8] => |s, r| { min_max_contract::<6>(s, r) },
   min_max_le8 [10] => |s, r| { min_max_contract::<8>(s, r) },
   sum_le8 [10] => |s, r| { sum_contract::<8>(s, r) },
   count_le8 [10] => |s, r| { count_contract::<8>(s, r) },
   not_le8 [10] => |s, r| { not_contract::<8>(s, r) },
   min_max_le16 [18] => |s, r| { min_max_contract::<16>(s, r) },
   sum_le16 [18] => |s, r| { sum_contract::<16>(s, r) },
   count_le16 [18] => |s, r| { count_contract::<16>(s, r) },
   mean_le4 [6] => |s, r| { mean_contract::<4>(s, r) },
   sum_le6 [8] => |s, r| { sum_contract::<6>(s, r) },
   count_le6 [8] => |s, r| { count_contract::<6>(s, r) },
   not_le6 [8] => |s, r| { not_contract::<6>(s, r) },
   percentile_index_len_le_2p16 [9] => |s, r| { percentile_index_contract(s, r, 16) },
   percentile_index_len_le_2p40 [9] => |s, r| { percentile_index_contract(s, r, 40) },
   percentile_index_len_le_2p46 [9] => |s, r| { percentile_index_contract(s, r, 46) },
}
