// PLACEHOLDER -- overwritten on every run by the driver with the statement extracted from
// /repo/ascent/src/aggregators.rs (fn percentile).  The committed text mirrors the pinned tree.
pub struct Sorted { pub n: usize }
impl Sorted { pub fn len(&self) -> usize { self.n } pub fn is_empty(&self) -> bool { self.n == 0 } }
pub fn p_index_of(len: usize, p: f64) -> usize {
   let sorted = Sorted { n: len };
   let p_index = (sorted.len() as f64 * p / 100.0) as usize;
   p_index
}
