//! Native runner: replays byte vectors (Kani counterexamples) on the real code and enumerates small
//! carriers exhaustively.  Output is line-oriented for the python driver.
use lawcheck::{registry, Report, VecSrc};

fn parse_hex(s: &str) -> Vec<u8> {
   let s = s.trim();
   if s.is_empty() || s == "-" {
      return vec![];
   }
   s.split(',').map(|x| x.trim().parse::<u8>().expect("byte")).collect()
}

fn parse_alpha(s: &str) -> Vec<u8> {
   if let Some((a, b)) = s.split_once('-') {
      let a: u8 = a.trim().parse().unwrap();
      let b: u8 = b.trim().parse().unwrap();
      (a..=b).collect()
   } else {
      parse_hex(s)
   }
}

fn main() {
   let args: Vec<String> = std::env::args().collect();
   let reg = registry();
   match args.get(1).map(|s| s.as_str()) {
      Some("list") => {
         for (n, _, k) in &reg {
            println!("{} {}", n, if *k { "kani" } else { "native" });
         }
      },
      Some("replay") => {
         let name = &args[2];
         let bytes = parse_hex(args.get(3).map(|s| s.as_str()).unwrap_or(""));
         let f = reg.iter().find(|(n, _, _)| n == name).expect("unknown harness").1;
         let mut src = VecSrc::new(bytes.clone());
         let mut rep = Report::new(false);
         f(&mut src, &mut rep);
         if src.rejected {
            println!("REJECTED input violates generator assumptions");
            std::process::exit(3);
         }
         println!("CONSUMED {}", src.pos);
         for o in &rep.failed {
            println!("FAILED {}", o);
         }
         if rep.failed.is_empty() {
            println!("PASSED");
         } else {
            std::process::exit(1);
         }
      },
      Some("exhaust") => {
         // exhaust <harness> <alphabet per byte position, ';'-separated; each 'a-b' or 'x,y,z'>
         let name = &args[2];
         let alphas: Vec<Vec<u8>> = if args[3].is_empty() { vec![] } else { args[3].split(';').map(parse_alpha).collect() };
         let n = alphas.len();
         let f = reg.iter().find(|(n, _, _)| n == name).expect("unknown harness").1;
         let mut idx = vec![0usize; n];
         let mut evals: u64 = 0;
         let mut rejected: u64 = 0;
         let mut failures: Vec<(String, Vec<u8>)> = vec![];
         loop {
            let bytes: Vec<u8> = idx.iter().enumerate().map(|(p, &i)| alphas[p][i]).collect();
            let mut src = VecSrc::new(bytes.clone());
            let mut rep = Report::new(false);
            f(&mut src, &mut rep);
            if src.rejected {
               rejected += 1;
            } else {
               evals += 1;
               for o in rep.failed {
                  if !failures.iter().any(|(n, _)| n == o) {
                     failures.push((o.to_string(), bytes[..src.pos.min(bytes.len())].to_vec()));
                  }
               }
            }
            // next
            let mut k = 0;
            loop {
               if k == n {
                  break;
               }
               idx[k] += 1;
               if idx[k] < alphas[k].len() {
                  break;
               }
               idx[k] = 0;
               k += 1;
            }
            if k == n {
               break;
            }
         }
         println!("EVALUATED {} REJECTED {}", evals, rejected);
         for (o, b) in &failures {
            println!("FAILED {} INPUT {}", o, b.iter().map(|x| x.to_string()).collect::<Vec<_>>().join(","));
         }
         if failures.is_empty() {
            println!("PASSED");
         } else {
            std::process::exit(1);
         }
      },
      _ => {
         eprintln!("usage: lawcheck list | replay <harness> <b,b,..> | exhaust <harness> <alphabets>");
         std::process::exit(2);
      },
   }
}
