//! Law harnesses over the REAL `ascent_base` lattice impls (path dependency on /repo).
//!
//! The same code runs in two ways:
//!  * under Kani (`cfg(kani)`): every byte a value is built from is `kani::any()`; the harnesses are
//!    loop-free over full-domain symbolic inputs (complete for the instantiation) except where a
//!    bound is stated (Set / BoundedSet sizes, array lengths).
//!  * natively (`src/main.rs`): bytes come from a vector -- used to REPLAY a Kani counterexample on
//!    the real code and to enumerate small carriers exhaustively (bool, ()).
//!
//! Each `check(..)` names the obligation it asserts; the names are what the driver reports.

use ascent_base::lattice::bounded_set::BoundedSet;
use ascent_base::lattice::constant_propagation::ConstPropagation;
use ascent_base::lattice::ord_lattice::OrdLattice;
use ascent_base::lattice::set::Set;
use ascent_base::lattice::{BoundedLattice, Dual, Product};
use ascent_base::Lattice;
use std::cmp::Reverse;
use std::rc::Rc;
use std::sync::Arc;

pub trait Src {
   fn byte(&mut self) -> u8;
   /// restricts a just-drawn byte (Kani: assume; native: reject this input)
   fn require(&mut self, cond: bool);
}

pub struct VecSrc {
   pub bytes: Vec<u8>,
   pub pos: usize,
   pub rejected: bool,
}
impl VecSrc {
   pub fn new(bytes: Vec<u8>) -> Self { VecSrc { bytes, pos: 0, rejected: false } }
}
impl Src for VecSrc {
   fn byte(&mut self) -> u8 {
      let b = self.bytes.get(self.pos).copied().unwrap_or(0);
      self.pos += 1;
      b
   }
   fn require(&mut self, cond: bool) {
      if !cond {
         self.rejected = true;
      }
   }
}

#[cfg(kani)]
pub struct KaniSrc;
#[cfg(kani)]
impl Src for KaniSrc {
   fn byte(&mut self) -> u8 { kani::any() }
   fn require(&mut self, cond: bool) { kani::assume(cond) }
}

/// How a value of each checked type is built from bytes (covers the whole carrier of the instantiation).
pub trait Gen: Sized {
   fn gen(s: &mut dyn Src) -> Self;
}

impl Gen for u8 {
   fn gen(s: &mut dyn Src) -> Self { s.byte() }
}
impl Gen for i8 {
   fn gen(s: &mut dyn Src) -> Self { s.byte() as i8 }
}
impl Gen for bool {
   fn gen(s: &mut dyn Src) -> Self {
      let b = s.byte();
      s.require(b < 2);
      b == 1
   }
}
impl Gen for () {
   fn gen(_s: &mut dyn Src) -> Self {}
}
macro_rules! gen_wide {
   ($t:ty, $n:expr) => {
      impl Gen for $t {
         fn gen(s: &mut dyn Src) -> Self {
            let mut buf = [0u8; $n];
            let mut i = 0;
            while i < $n {
               buf[i] = s.byte();
               i += 1;
            }
            <$t>::from_le_bytes(buf)
         }
      }
   };
}
gen_wide!(i16, 2);
gen_wide!(u16, 2);
gen_wide!(i32, 4);
gen_wide!(u32, 4);
gen_wide!(i64, 8);
gen_wide!(u64, 8);
gen_wide!(i128, 16);
gen_wide!(u128, 16);
gen_wide!(isize, 8);
gen_wide!(usize, 8);

impl<T: Gen> Gen for Option<T> {
   fn gen(s: &mut dyn Src) -> Self {
      // fixed-width encoding: the payload bytes are always drawn (keeps byte positions aligned for
      // exhaustive enumeration and for decoding Kani counterexamples)
      let tag = s.byte();
      s.require(tag < 2);
      let v = T::gen(s);
      if tag == 0 { None } else { Some(v) }
   }
}
impl<T: Gen> Gen for Dual<T> {
   fn gen(s: &mut dyn Src) -> Self { Dual(T::gen(s)) }
}
impl<T: Gen> Gen for Reverse<T> {
   fn gen(s: &mut dyn Src) -> Self { Reverse(T::gen(s)) }
}
impl<T: Gen> Gen for OrdLattice<T> {
   fn gen(s: &mut dyn Src) -> Self { OrdLattice(T::gen(s)) }
}
impl<T: Gen> Gen for Box<T> {
   fn gen(s: &mut dyn Src) -> Self { Box::new(T::gen(s)) }
}
impl<T: Gen> Gen for Rc<T> {
   fn gen(s: &mut dyn Src) -> Self {
      let shared = s.byte();
      s.require(shared < 2);
      let r = Rc::new(T::gen(s));
      if shared == 1 {
         // a second owner that outlives the harness: forces the clone path of make_mut / try_unwrap
         std::mem::forget(r.clone());
      }
      r
   }
}
impl<T: Gen> Gen for Arc<T> {
   fn gen(s: &mut dyn Src) -> Self {
      let shared = s.byte();
      s.require(shared < 2);
      let r = Arc::new(T::gen(s));
      if shared == 1 {
         std::mem::forget(r.clone());
      }
      r
   }
}

pub fn share_rc<T: Clone>(s: &mut dyn Src, v: T) -> Rc<T> {
   let shared = s.byte();
   s.require(shared < 2);
   let r = Rc::new(v);
   if shared == 1 {
      std::mem::forget(r.clone());
   }
   r
}
pub fn share_arc<T: Clone>(s: &mut dyn Src, v: T) -> Arc<T> {
   let shared = s.byte();
   s.require(shared < 2);
   let r = Arc::new(v);
   if shared == 1 {
      std::mem::forget(r.clone());
   }
   r
}
impl<T: Gen> Gen for ConstPropagation<T> {
   fn gen(s: &mut dyn Src) -> Self {
      let tag = s.byte();
      s.require(tag < 3);
      let v = T::gen(s);
      match tag {
         0 => ConstPropagation::Bottom,
         1 => ConstPropagation::Constant(v),
         _ => ConstPropagation::Top,
      }
   }
}
impl<T: Gen> Gen for Product<T> {
   fn gen(s: &mut dyn Src) -> Self { Product(T::gen(s)) }
}
macro_rules! gen_tuple {
   ($($t:ident),*) => {
      impl<$($t: Gen),*> Gen for ($($t,)*) {
         fn gen(s: &mut dyn Src) -> Self { ($($t::gen(s),)*) }
      }
   };
}
gen_tuple!(A);
gen_tuple!(A, B);
gen_tuple!(A, B, C);
gen_tuple!(A, B, C, D);
gen_tuple!(A, B, C, D, E, F, G, H, I, J, K);
impl<T: Gen, const N: usize> Gen for [T; N] {
   fn gen(s: &mut dyn Src) -> Self { std::array::from_fn(|_| T::gen(s)) }
}

/// a set over the universe {0..7} from one byte used as a bit mask (255 = TOP marker for bounded sets is
/// drawn separately); the driver restricts the mask alphabet to the universe size of the tier
pub fn gen_set_mask(s: &mut dyn Src) -> Set<u8> {
   let mask = s.byte();
   let mut set = Set::default();
   let mut i = 0u8;
   while i < 8 {
      if mask & (1 << i) != 0 {
         set.0.insert(i);
      }
      i += 1;
   }
   set
}
pub struct MaskSet(pub Set<u8>);
impl Gen for MaskSet {
   fn gen(s: &mut dyn Src) -> Self { MaskSet(gen_set_mask(s)) }
}
/// values of BoundedSet are only constructible through from_set / TOP (the field is private)
pub fn gen_bset_mask<const B: usize>(s: &mut dyn Src) -> BoundedSet<B, u8> {
   let top = s.byte();
   s.require(top < 2);
   let set = gen_set_mask(s);
   if top == 1 { BoundedSet::TOP } else { BoundedSet::from_set(set) }
}

// ---------------------------------------------------------------------------------------------
// obligations

pub struct Report {
   pub failed: Vec<&'static str>,
   /// decoded input values (native replay only)
   pub notes: Vec<String>,
}
impl Report {
   pub fn new() -> Self { Report { failed: vec![], notes: vec![] } }
   #[cfg(not(kani))]
   pub fn note(&mut self, s: String) { if self.notes.len() < 8 { self.notes.push(s); } }
   pub fn check(&mut self, name: &'static str, ok: bool) {
      if !ok && !self.failed.contains(&name) {
         self.failed.push(name);
      }
   }
}

#[cfg(kani)]
macro_rules! chk {
   ($r:expr, $name:literal, $cond:expr $(,)?) => {{
      let _ = &$r;
      kani::assert($cond, $name);
   }};
}
#[cfg(not(kani))]
macro_rules! chk {
   ($r:expr, $name:literal, $cond:expr $(,)?) => {
      $r.check($name, $cond)
   };
}

fn le<L: PartialOrd>(a: &L, b: &L) -> bool { a <= b }

/// The sentences of property C16 asserted literally on the real operations.
pub fn lattice_laws<L: Lattice + Clone + PartialEq>(r: &mut Report, a: L, b: L, c: L) {
   let j = |x: &L, y: &L| x.clone().join(y.clone());
   let m = |x: &L, y: &L| x.clone().meet(y.clone());
   chk!(r, "join_commutative", j(&a, &b) == j(&b, &a));
   chk!(r, "meet_commutative", m(&a, &b) == m(&b, &a));
   chk!(r, "join_associative", j(&j(&a, &b), &c) == j(&a, &j(&b, &c)));
   chk!(r, "meet_associative", m(&m(&a, &b), &c) == m(&a, &m(&b, &c)));
   chk!(r, "join_idempotent", j(&a, &a) == a);
   chk!(r, "meet_idempotent", m(&a, &a) == a);
   chk!(r, "absorption_join_meet", j(&a, &m(&a, &b)) == a);
   chk!(r, "absorption_meet_join", m(&a, &j(&a, &b)) == a);
   chk!(r, "order_iff_join", le(&a, &b) == (j(&a, &b) == b));
   chk!(r, "order_iff_meet", le(&a, &b) == (m(&a, &b) == a));
   // join_mut / meet_mut leave the same value as join / meet and report change truthfully
   let mut x = a.clone();
   let ch = x.join_mut(b.clone());
   chk!(r, "join_mut_value_equals_join", x == j(&a, &b));
   chk!(r, "join_mut_flag_iff_changed", ch == (x != a));
   let mut y = a.clone();
   let ch = y.meet_mut(b.clone());
   chk!(r, "meet_mut_value_equals_meet", y == m(&a, &b));
   chk!(r, "meet_mut_flag_iff_changed", ch == (y != a));
   // partial_cmp is consistent with itself (the order the laws are stated over is a partial order)
   chk!(r, "order_reflexive", le(&a, &a));
   chk!(r, "order_antisymmetric", !(le(&a, &b) && le(&b, &a)) || a == b);
   chk!(r, "order_transitive", !(le(&a, &b) && le(&b, &c)) || le(&a, &c));
   chk!(r, "ge_is_converse_of_le", (a >= b) == le(&b, &a));
}

/// cheaper variant without the triple-quantified laws (pairs only), for the heavier carriers
pub fn lattice_laws_pairs<L: Lattice + Clone + PartialEq>(r: &mut Report, a: L, b: L) {
   let j = |x: &L, y: &L| x.clone().join(y.clone());
   let m = |x: &L, y: &L| x.clone().meet(y.clone());
   chk!(r, "join_commutative", j(&a, &b) == j(&b, &a));
   chk!(r, "meet_commutative", m(&a, &b) == m(&b, &a));
   chk!(r, "join_idempotent", j(&a, &a) == a);
   chk!(r, "meet_idempotent", m(&a, &a) == a);
   chk!(r, "absorption_join_meet", j(&a, &m(&a, &b)) == a);
   chk!(r, "absorption_meet_join", m(&a, &j(&a, &b)) == a);
   chk!(r, "order_iff_join", le(&a, &b) == (j(&a, &b) == b));
   chk!(r, "order_iff_meet", le(&a, &b) == (m(&a, &b) == a));
   let mut x = a.clone();
   let ch = x.join_mut(b.clone());
   chk!(r, "join_mut_value_equals_join", x == j(&a, &b));
   chk!(r, "join_mut_flag_iff_changed", ch == (x != a));
   let mut y = a.clone();
   let ch = y.meet_mut(b.clone());
   chk!(r, "meet_mut_value_equals_meet", y == m(&a, &b));
   chk!(r, "meet_mut_flag_iff_changed", ch == (y != a));
   chk!(r, "order_reflexive", le(&a, &a));
   chk!(r, "order_antisymmetric", !(le(&a, &b) && le(&b, &a)) || a == b);
}

pub fn assoc_laws<L: Lattice + Clone + PartialEq>(r: &mut Report, a: L, b: L, c: L) {
   let j = |x: &L, y: &L| x.clone().join(y.clone());
   let m = |x: &L, y: &L| x.clone().meet(y.clone());
   chk!(r, "join_associative", j(&j(&a, &b), &c) == j(&a, &j(&b, &c)));
   chk!(r, "meet_associative", m(&m(&a, &b), &c) == m(&a, &m(&b, &c)));
   chk!(r, "order_transitive", !(le(&a, &b) && le(&b, &c)) || le(&a, &c));
}

pub fn bounded_laws<L: BoundedLattice + Clone + PartialEq>(r: &mut Report, a: L) {
   chk!(r, "bottom_is_least", le(&L::bottom(), &a));
   chk!(r, "top_is_greatest", le(&a, &L::top()));
   chk!(r, "join_with_bottom_is_identity", L::bottom().join(a.clone()) == a);
   chk!(r, "meet_with_top_is_identity", L::top().meet(a.clone()) == a);
}

/// Dual and Reverse swap the two operations and the order
pub fn dual_swaps<T: Lattice + Clone + PartialEq>(r: &mut Report, a: T, b: T) {
   chk!(r, "dual_join_is_inner_meet", Dual(a.clone()).join(Dual(b.clone())) == Dual(a.clone().meet(b.clone())));
   chk!(r, "dual_meet_is_inner_join", Dual(a.clone()).meet(Dual(b.clone())) == Dual(a.clone().join(b.clone())));
   chk!(r, "dual_le_is_inner_ge", (Dual(a.clone()) <= Dual(b.clone())) == (b <= a));
   let mut x = Dual(a.clone());
   let ch = x.join_mut(Dual(b.clone()));
   let mut y = a.clone();
   let ch2 = y.meet_mut(b.clone());
   chk!(r, "dual_join_mut_is_inner_meet_mut", x.0 == y && ch == ch2);
}
pub fn reverse_swaps<T: Lattice + Clone + PartialEq>(r: &mut Report, a: T, b: T) {
   chk!(r, 
      "reverse_join_is_inner_meet",
      Reverse(a.clone()).join(Reverse(b.clone())) == Reverse(a.clone().meet(b.clone())),
   );
   chk!(r, 
      "reverse_meet_is_inner_join",
      Reverse(a.clone()).meet(Reverse(b.clone())) == Reverse(a.clone().join(b.clone())),
   );
   chk!(r, "reverse_le_is_inner_ge", (Reverse(a.clone()) <= Reverse(b.clone())) == (b <= a));
   let mut x = Reverse(a.clone());
   let ch = x.join_mut(Reverse(b.clone()));
   let mut y = a.clone();
   let ch2 = y.meet_mut(b.clone());
   chk!(r, "reverse_join_mut_is_inner_meet_mut", x.0 == y && ch == ch2);
}
pub fn dual_bounds<T: BoundedLattice + Clone + PartialEq>(r: &mut Report) {
   chk!(r, "dual_top_is_inner_bottom", Dual::<T>::top() == Dual(T::bottom()));
   chk!(r, "dual_bottom_is_inner_top", Dual::<T>::bottom() == Dual(T::top()));
   chk!(r, "reverse_top_is_inner_bottom", Reverse::<T>::top() == Reverse(T::bottom()));
   chk!(r, "reverse_bottom_is_inner_top", Reverse::<T>::bottom() == Reverse(T::top()));
}

/// Rc / Arc / Box lift the inner lattice unchanged: every operation agrees with the inner type's operation
/// (the inner impls are verified separately; together this gives all laws for the wrapper).
pub fn lift_agrees<W, T>(r: &mut Report, a: T, b: T, wa: W, wb: W, inner: fn(&W) -> &T)
where
   W: Lattice + Clone,
   T: Lattice + Clone + PartialEq,
{
   let _ = &r;
   let mut x = wa.clone();
   let ch = x.join_mut(wb.clone());
   let mut y = a.clone();
   let ch2 = y.join_mut(b.clone());
   chk!(r, "lift_join_mut_value_is_inner_join_mut", *inner(&x) == y);
   chk!(r, "lift_join_mut_flag_is_inner_flag", ch == ch2);
   let mut x = wa.clone();
   let ch = x.meet_mut(wb.clone());
   let mut y = a.clone();
   let ch2 = y.meet_mut(b.clone());
   chk!(r, "lift_meet_mut_value_is_inner_meet_mut", *inner(&x) == y);
   chk!(r, "lift_meet_mut_flag_is_inner_flag", ch == ch2);
   chk!(r, "lift_join_is_inner_join", *inner(&wa.clone().join(wb.clone())) == a.clone().join(b.clone()));
   chk!(r, "lift_meet_is_inner_meet", *inner(&wa.clone().meet(wb.clone())) == a.clone().meet(b.clone()));
   chk!(r, "lift_partial_cmp_is_inner_partial_cmp", wa.partial_cmp(&wb) == a.partial_cmp(&b));
   // the arguments are not modified through sharing
   chk!(r, "lift_does_not_modify_shared_arguments", *inner(&wa) == a && *inner(&wb) == b);
}

/// Product<[T; N]> behaves as the N-tuple product (verified separately): component-wise operations,
/// flag = OR of the component flags, product order.
pub fn array_agrees<const N: usize>(r: &mut Report, a: [u8; N], b: [u8; N]) {
   let _ = &r;
   let mut x = Product(a);
   let ch = x.join_mut(Product(b));
   let mut any = false;
   let mut ok = true;
   let mut i = 0;
   while i < N {
      let mut e = a[i];
      let c = e.join_mut(b[i]);
      if c { any = true; }
      if x.0[i] != e { ok = false; }
      i += 1;
   }
   chk!(r, "array_join_mut_is_componentwise", ok);
   chk!(r, "array_join_mut_flag_is_or_of_component_flags", ch == any);
   let mut x = Product(a);
   let ch = x.meet_mut(Product(b));
   let mut any = false;
   let mut ok = true;
   let mut i = 0;
   while i < N {
      let mut e = a[i];
      let c = e.meet_mut(b[i]);
      if c { any = true; }
      if x.0[i] != e { ok = false; }
      i += 1;
   }
   chk!(r, "array_meet_mut_is_componentwise", ok);
   chk!(r, "array_meet_mut_flag_is_or_of_component_flags", ch == any);
   chk!(r, "array_join_equals_join_mut", Product(a).join(Product(b)) == { let mut t = Product(a); t.join_mut(Product(b)); t });
   chk!(r, "array_meet_equals_meet_mut", Product(a).meet(Product(b)) == { let mut t = Product(a); t.meet_mut(Product(b)); t });
   // product order: Equal iff all equal, Less iff all <=, Greater iff all >=, else None
   let mut all_le = true;
   let mut all_ge = true;
   let mut i = 0;
   while i < N {
      if !(a[i] <= b[i]) { all_le = false; }
      if !(a[i] >= b[i]) { all_ge = false; }
      i += 1;
   }
   let expect = if all_le && all_ge { Some(std::cmp::Ordering::Equal) } else if all_le { Some(std::cmp::Ordering::Less) } else if all_ge { Some(std::cmp::Ordering::Greater) } else { None };
   chk!(r, "array_partial_cmp_is_product_order", Product(a).partial_cmp(&Product(b)) == expect);
   let bot = <Product<[u8; N]>>::bottom();
   let top = <Product<[u8; N]>>::top();
   let mut ok = true;
   let mut i = 0;
   while i < N {
      if bot.0[i] != u8::MIN || top.0[i] != u8::MAX { ok = false; }
      i += 1;
   }
   chk!(r, "array_top_bottom_are_componentwise_extremal", ok);
}

// ---------------------------------------------------------------------------------------------
// registry: harness name -> runner over a byte source (shared by Kani and native replay)

pub type Runner = fn(&mut dyn Src, &mut Report);

macro_rules! registry {
   (kani { $( $name:ident => |$s:ident, $r:ident| $body:block ),* $(,)? }
    native { $( $nname:ident => |$ns:ident, $nr:ident| $nbody:block ),* $(,)? }) => {
      pub mod run {
         use super::*;
         $( pub fn $name($s: &mut dyn Src, $r: &mut Report) $body )*
         $( pub fn $nname($ns: &mut dyn Src, $nr: &mut Report) $nbody )*
      }
      /// (name, runner, has a Kani proof)
      pub fn registry() -> Vec<(&'static str, Runner, bool)> {
         vec![ $( (stringify!($name), run::$name as Runner, true), )* $( (stringify!($nname), run::$nname as Runner, false), )* ]
      }
      #[cfg(kani)]
      mod proofs {
         use super::*;
         $(
            #[kani::proof]
            #[kani::unwind(20)]
            fn $name() {
               let mut s = KaniSrc;
               let mut r = Report::new();
               run::$name(&mut s, &mut r);
            }
         )*
      }
   };
}

macro_rules! laws3 {
   ($s:ident, $r:ident, $t:ty) => {{
      let a = <$t>::gen($s);
      let b = <$t>::gen($s);
      let c = <$t>::gen($s);
      #[cfg(not(kani))]
      $r.note(format!("a = {:?}, b = {:?}, c = {:?}", a, b, c));
      lattice_laws::<$t>($r, a, b, c);
   }};
}
macro_rules! laws2 {
   ($s:ident, $r:ident, $t:ty) => {{
      let a = <$t>::gen($s);
      let b = <$t>::gen($s);
      #[cfg(not(kani))]
      $r.note(format!("a = {:?}, b = {:?}", a, b));
      lattice_laws_pairs::<$t>($r, a, b);
   }};
}
macro_rules! assoc3 {
   ($s:ident, $r:ident, $t:ty) => {{
      let a = <$t>::gen($s);
      let b = <$t>::gen($s);
      let c = <$t>::gen($s);
      #[cfg(not(kani))]
      $r.note(format!("a = {:?}, b = {:?}, c = {:?}", a, b, c));
      assoc_laws::<$t>($r, a, b, c);
   }};
}
macro_rules! bounded1 {
   ($s:ident, $r:ident, $t:ty) => {{
      let a = <$t>::gen($s);
      #[cfg(not(kani))]
      $r.note(format!("a = {:?}", a));
      bounded_laws::<$t>($r, a);
   }};
}

type P2 = Product<(u8, u8)>;
type P3 = Product<(u8, i8, u8)>;
type T11 = (u8, u8, u8, u8, u8, u8, u8, u8, u8, u8, u8);
type Nest1 = Dual<Option<Product<(u8, u8)>>>;
type Nest2 = Option<ConstPropagation<u8>>;
type Nest3 = Product<(Dual<u8>, Option<u8>)>;

registry! {
kani {
   // integers (full domain)
   laws_u8 => |s, r| { laws3!(s, r, u8) },
   laws_i8 => |s, r| { laws3!(s, r, i8) },
   laws_i16 => |s, r| { laws3!(s, r, i16) },
   laws_u16 => |s, r| { laws3!(s, r, u16) },
   laws_i32 => |s, r| { laws3!(s, r, i32) },
   laws_u32 => |s, r| { laws3!(s, r, u32) },
   laws_i64 => |s, r| { laws3!(s, r, i64) },
   laws_u64 => |s, r| { laws3!(s, r, u64) },
   laws_i128 => |s, r| { laws3!(s, r, i128) },
   laws_u128 => |s, r| { laws3!(s, r, u128) },
   laws_isize => |s, r| { laws3!(s, r, isize) },
   laws_usize => |s, r| { laws3!(s, r, usize) },
   bounded_u8 => |s, r| { bounded1!(s, r, u8) },
   bounded_i8 => |s, r| { bounded1!(s, r, i8) },
   bounded_i16 => |s, r| { bounded1!(s, r, i16) },
   bounded_u16 => |s, r| { bounded1!(s, r, u16) },
   bounded_i32 => |s, r| { bounded1!(s, r, i32) },
   bounded_u32 => |s, r| { bounded1!(s, r, u32) },
   bounded_i64 => |s, r| { bounded1!(s, r, i64) },
   bounded_u64 => |s, r| { bounded1!(s, r, u64) },
   bounded_i128 => |s, r| { bounded1!(s, r, i128) },
   bounded_u128 => |s, r| { bounded1!(s, r, u128) },
   bounded_isize => |s, r| { bounded1!(s, r, isize) },
   bounded_usize => |s, r| { bounded1!(s, r, usize) },
   // liftings
   laws_option_u8 => |s, r| { laws3!(s, r, Option<u8>) },
   bounded_option_u8 => |s, r| { bounded1!(s, r, Option<u8>) },
   laws_dual_u8 => |s, r| { laws3!(s, r, Dual<u8>) },
   bounded_dual_u8 => |s, r| { bounded1!(s, r, Dual<u8>) },
   swaps_dual_u8 => |s, r| { let a = u8::gen(s); let b = u8::gen(s); dual_swaps::<u8>(r, a, b); dual_bounds::<u8>(r); },
   swaps_dual_option_p2 => |s, r| { let a = <Option<P2>>::gen(s); let b = <Option<P2>>::gen(s); dual_swaps::<Option<P2>>(r, a, b); },
   laws_reverse_u8 => |s, r| { laws3!(s, r, Reverse<u8>) },
   laws_reverse_option_u8 => |s, r| { laws3!(s, r, Reverse<Option<u8>>) },
   laws_reverse_p2 => |s, r| { laws2!(s, r, Reverse<P2>) },
   bounded_reverse_u8 => |s, r| { bounded1!(s, r, Reverse<u8>) },
   bounded_reverse_option_u8 => |s, r| { bounded1!(s, r, Reverse<Option<u8>>) },
   swaps_reverse_u8 => |s, r| { let a = u8::gen(s); let b = u8::gen(s); reverse_swaps::<u8>(r, a, b); },
   swaps_reverse_p2 => |s, r| { let a = P2::gen(s); let b = P2::gen(s); reverse_swaps::<P2>(r, a, b); },
   laws_ordlattice_u8 => |s, r| { laws3!(s, r, OrdLattice<u8>) },
   laws_ordlattice_pair => |s, r| { laws3!(s, r, OrdLattice<(u8, i8)>) },
   laws_box_u8 => |s, r| { laws3!(s, r, Box<u8>) },
   laws_box_option_u8 => |s, r| { laws3!(s, r, Box<Option<u8>>) },
   laws_box_p2 => |s, r| { laws2!(s, r, Box<P2>) },
   laws_rc_u8 => |s, r| { laws3!(s, r, Rc<u8>) },
   laws_rc_p2 => |s, r| { laws2!(s, r, Rc<P2>) },
   assoc_rc_p2 => |s, r| { assoc3!(s, r, Rc<P2>) },
   laws_rc_constprop => |s, r| { laws2!(s, r, Rc<ConstPropagation<u8>>) },
   laws_arc_u8 => |s, r| { laws3!(s, r, Arc<u8>) },
   laws_arc_p2 => |s, r| { laws2!(s, r, Arc<P2>) },
   assoc_arc_p2 => |s, r| { assoc3!(s, r, Arc<P2>) },
   laws_arc_constprop => |s, r| { laws2!(s, r, Arc<ConstPropagation<u8>>) },
   // wrappers: agreement with the inner (verified) lattice, unique and shared references
   lift_rc_p2 => |s, r| { let a = P2::gen(s); let b = P2::gen(s); let wa = share_rc(s, a); let wb = share_rc(s, b); lift_agrees::<Rc<P2>, P2>(r, a, b, wa, wb, |w| &**w); },
   lift_rc_constprop => |s, r| { let a = <ConstPropagation<u8>>::gen(s); let b = <ConstPropagation<u8>>::gen(s); let wa = share_rc(s, a); let wb = share_rc(s, b); lift_agrees::<Rc<ConstPropagation<u8>>, ConstPropagation<u8>>(r, a, b, wa, wb, |w| &**w); },
   lift_arc_p2 => |s, r| { let a = P2::gen(s); let b = P2::gen(s); let wa = share_arc(s, a); let wb = share_arc(s, b); lift_agrees::<Arc<P2>, P2>(r, a, b, wa, wb, |w| &**w); },
   lift_arc_constprop => |s, r| { let a = <ConstPropagation<u8>>::gen(s); let b = <ConstPropagation<u8>>::gen(s); let wa = share_arc(s, a); let wb = share_arc(s, b); lift_agrees::<Arc<ConstPropagation<u8>>, ConstPropagation<u8>>(r, a, b, wa, wb, |w| &**w); },
   lift_box_p2 => |s, r| { let a = P2::gen(s); let b = P2::gen(s); lift_agrees::<Box<P2>, P2>(r, a, b, Box::new(a), Box::new(b), |w| &**w); },
   lift_box_option_u8 => |s, r| { let a = <Option<u8>>::gen(s); let b = <Option<u8>>::gen(s); lift_agrees::<Box<Option<u8>>, Option<u8>>(r, a, b, Box::new(a), Box::new(b), |w| &**w); },
   agrees_array0 => |s, r| { let a = <[u8; 0]>::gen(s); let b = <[u8; 0]>::gen(s); array_agrees::<0>(r, a, b); },
   agrees_array1 => |s, r| { let a = <[u8; 1]>::gen(s); let b = <[u8; 1]>::gen(s); array_agrees::<1>(r, a, b); },
   agrees_array2 => |s, r| { let a = <[u8; 2]>::gen(s); let b = <[u8; 2]>::gen(s); array_agrees::<2>(r, a, b); },
   agrees_array3 => |s, r| { let a = <[u8; 3]>::gen(s); let b = <[u8; 3]>::gen(s); array_agrees::<3>(r, a, b); },
   agrees_array4 => |s, r| { let a = <[u8; 4]>::gen(s); let b = <[u8; 4]>::gen(s); array_agrees::<4>(r, a, b); },
   // tuples (lexicographic Ord) and products (component-wise)
   laws_tuple1 => |s, r| { laws3!(s, r, (u8,)) },
   laws_tuple2 => |s, r| { laws3!(s, r, (u8, i8)) },
   laws_tuple3 => |s, r| { laws3!(s, r, (u8, i8, u8)) },
   laws_tuple11 => |s, r| { laws2!(s, r, T11) },
   bounded_tuple1 => |s, r| { bounded1!(s, r, (u8,)) },
   bounded_tuple2 => |s, r| { bounded1!(s, r, (u8, i8)) },
   bounded_tuple3 => |s, r| { bounded1!(s, r, (u8, i8, u8)) },
   bounded_tuple11 => |s, r| { bounded1!(s, r, T11) },
   laws_product1 => |s, r| { laws3!(s, r, Product<(u8,)>) },
   laws_product2 => |s, r| { laws3!(s, r, P2) },
   laws_product3 => |s, r| { laws2!(s, r, P3) },
   assoc_product3 => |s, r| { assoc3!(s, r, P3) },
   laws_product11 => |s, r| { laws2!(s, r, Product<T11>) },
   bounded_product2 => |s, r| { bounded1!(s, r, P2) },
   bounded_product3 => |s, r| { bounded1!(s, r, P3) },
   bounded_product11 => |s, r| { bounded1!(s, r, Product<T11>) },
   laws_array0 => |s, r| { laws3!(s, r, Product<[u8; 0]>) },
   laws_array1 => |s, r| { laws3!(s, r, Product<[u8; 1]>) },
   laws_array2 => |s, r| { laws3!(s, r, Product<[u8; 2]>) },
   laws_array3 => |s, r| { laws2!(s, r, Product<[u8; 3]>) },
   assoc_array3 => |s, r| { assoc3!(s, r, Product<[u8; 3]>) },
   bounded_array0 => |s, r| { bounded1!(s, r, Product<[u8; 0]>) },
   bounded_array2 => |s, r| { bounded1!(s, r, Product<[u8; 2]>) },
   bounded_array3 => |s, r| { bounded1!(s, r, Product<[u8; 3]>) },
   // flat lattice
   laws_constprop_u8 => |s, r| { laws3!(s, r, ConstPropagation<u8>) },
   bounded_constprop_u8 => |s, r| { bounded1!(s, r, ConstPropagation<u8>) },
   // nested compositions named by the property
   laws_nest_dual_option_product => |s, r| { laws2!(s, r, Nest1) },
   assoc_nest_dual_option_product => |s, r| { assoc3!(s, r, Nest1) },
   bounded_nest_dual_option_product => |s, r| { bounded1!(s, r, Nest1) },
   laws_nest_option_constprop => |s, r| { laws3!(s, r, Nest2) },
   laws_nest_product_dual_option => |s, r| { laws2!(s, r, Nest3) },
   assoc_nest_product_dual_option => |s, r| { assoc3!(s, r, Nest3) },
}
native {
   // finite carriers, exhaustive (Kani mis-handles symbolic bool comparisons; () has one value)
   laws_bool => |s, r| { laws3!(s, r, bool) },
   bounded_bool => |s, r| { bounded1!(s, r, bool) },
   laws_unit => |s, r| { laws3!(s, r, ()) },
   bounded_unit => |s, r| { bounded1!(s, r, ()) },
   // BOUNDED stand-ins: all subsets of a small universe {0..k-1}; every byte is a bit mask over the universe
   // (CBMC does not terminate on BTreeSet code: > 20 min and 5 GB per harness at <= 2 elements)
   laws_set_universe => |s, r| { let a = gen_set_mask(s); let b = gen_set_mask(s); let c = gen_set_mask(s); lattice_laws::<Set<u8>>(r, a, b, c); },
   laws_boundedset1_universe => |s, r| { let a = gen_bset_mask::<1>(s); let b = gen_bset_mask::<1>(s); let c = gen_bset_mask::<1>(s); lattice_laws::<BoundedSet<1, u8>>(r, a, b, c); },
   laws_boundedset2_universe => |s, r| { let a = gen_bset_mask::<2>(s); let b = gen_bset_mask::<2>(s); let c = gen_bset_mask::<2>(s); lattice_laws::<BoundedSet<2, u8>>(r, a, b, c); },
   laws_boundedset3_universe => |s, r| { let a = gen_bset_mask::<3>(s); let b = gen_bset_mask::<3>(s); let c = gen_bset_mask::<3>(s); lattice_laws::<BoundedSet<3, u8>>(r, a, b, c); },
   bounded_boundedset2_universe => |s, r| { let a = gen_bset_mask::<2>(s); bounded_laws::<BoundedSet<2, u8>>(r, a); },
   laws_option_set_universe => |s, r| { let a = <Option<MaskSet>>::gen(s).map(|m| m.0); let b = <Option<MaskSet>>::gen(s).map(|m| m.0); let c = <Option<MaskSet>>::gen(s).map(|m| m.0); lattice_laws::<Option<Set<u8>>>(r, a, b, c); },
   laws_dual_set_universe => |s, r| { let a = Dual(gen_set_mask(s)); let b = Dual(gen_set_mask(s)); let c = Dual(gen_set_mask(s)); lattice_laws::<Dual<Set<u8>>>(r, a, b, c); },
}
}
