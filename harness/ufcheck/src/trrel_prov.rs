//! BOUNDED (native only): the delta/total protocol of the trrel provider (binary: trrel_binary_ind.rs, ternary:
//! trrel_ternary_ind.rs) driven the way ascent-generated code drives it (compile_mir_scc: `delta = take(field)`, empty total,
//! `init`, guarded head updates into `new`, merge at the end of every iteration, two closing merges at a stratum end) and read
//! back through every index view, compared with the explicit transitive closure.  Never counted as proved.
use crate::{chk, Report, Src};

#[cfg(not(kani))]
mod imp {
   use super::*;
   use ascent::internal::{RelFullIndexRead, RelFullIndexWrite, RelIndexMerge, RelIndexRead, RelIndexReadAll, RelIndexWrite, ToRelIndex};
   use ascent_byods_rels::trrel_binary_ind::{ToTrRelInd0, ToTrRelInd1, ToTrRelIndFull, ToTrRelIndNone, TrRelIndCommon};
   use ascent_byods_rels::trrel_ternary_ind::{
      ToTrRel2Ind0, ToTrRel2Ind0_1, ToTrRel2Ind0_2, ToTrRel2Ind1, ToTrRel2Ind1_2, ToTrRel2Ind2, ToTrRel2IndFull, ToTrRel2IndNone, TrRel2IndCommonWrapper,
   };
   use std::collections::BTreeSet;

   type Rows = BTreeSet<(u8, u8, u8)>;
   fn set3(v: &[(u8, u8, u8)]) -> Rows { v.iter().cloned().collect() }
   fn nodup3(v: &[(u8, u8, u8)]) -> bool { set3(v).len() == v.len() }
   fn exact(v: &[(u8, u8, u8)], want: &Rows) -> bool { set3(v) == *want && nodup3(v) }
   /// a delta view may over-approximate within the closure (sound for semi-naive evaluation) but must cover the new rows
   /// a total view: everything known one iteration ago, nothing that is not known now, no row twice
   fn total3(v: &[(u8, u8, u8)], prev: &Rows, now: &Rows) -> bool { set3(v).is_superset(prev) && set3(v).is_subset(now) && nodup3(v) }
   fn covering(v: &[(u8, u8, u8)], want: &Rows, within: &Rows) -> bool { set3(v).is_superset(want) && set3(v).is_subset(within) }

   /// the oracle of every obligation: the per-key transitive closure, including the pairs (x, x) that cycles imply
   fn tc(p: &Rows, keys: usize, d: usize) -> Rows { tc_full(p, keys, d) }
   /// per-key transitive closure as the rule r(x, z) <-- r(x, y), r(y, z) computes it
   fn tc_full(p: &Rows, keys: usize, d: usize) -> Rows {
      let mut out = Rows::new();
      for k in 0..keys as u8 {
         let mut r = vec![vec![false; d]; d];
         for &(kk, a, b) in p {
            if kk == k {
               r[a as usize][b as usize] = true;
            }
         }
         for m in 0..d {
            for i in 0..d {
               for j in 0..d {
                  if r[i][m] && r[m][j] {
                     r[i][j] = true;
                  }
               }
            }
         }
         for i in 0..d {
            for j in 0..d {
               if r[i][j] {
                  out.insert((k, i as u8, j as u8));
               }
            }
         }
      }
      out
   }

   // ---------------------------------------------------------------------------------------------------------------
   // binary provider, 4 items (rows carry key 0)
   const D2: usize = 4;
   type Bin = TrRelIndCommon<u8>;
   struct V2 {
      full_contains: Rows,
      full_get: Rows,
      full_all: Vec<(u8, u8, u8)>,
      none_get: Vec<(u8, u8, u8)>,
      none_all: Vec<(u8, u8, u8)>,
      i0_get: Vec<(u8, u8, u8)>,
      i0_all: Vec<(u8, u8, u8)>,
      i1_get: Vec<(u8, u8, u8)>,
      i1_all: Vec<(u8, u8, u8)>,
   }
   fn read2(c: &Bin) -> V2 {
      let to_full = ToTrRelIndFull::<u8>::default();
      let to_none = ToTrRelIndNone::<u8>::default();
      let to_0 = ToTrRelInd0::<u8>::default();
      let to_1 = ToTrRelInd1::<u8>::default();
      let full = to_full.to_rel_index(c);
      let none = to_none.to_rel_index(c);
      let i0 = to_0.to_rel_index(c);
      let i1 = to_1.to_rel_index(c);
      let mut v = V2 { full_contains: Rows::new(), full_get: Rows::new(), full_all: vec![], none_get: vec![], none_all: vec![], i0_get: vec![], i0_all: vec![], i1_get: vec![], i1_all: vec![] };
      for a in 0..D2 as u8 {
         if let Some(it) = i0.index_get(&(a,)) {
            for (b,) in it {
               v.i0_get.push((0, a, *b));
            }
         }
         if let Some(it) = i1.index_get(&(a,)) {
            for (x,) in it {
               v.i1_get.push((0, *x, a));
            }
         }
         for b in 0..D2 as u8 {
            if full.contains_key(&(a, b)) {
               v.full_contains.insert((0, a, b));
            }
            if let Some(it) = full.index_get(&(a, b)) {
               if it.count() == 1 {
                  v.full_get.insert((0, a, b));
               } else {
                  v.full_get.insert((255, 255, 255));
               }
            }
         }
      }
      for ((a, b), it) in full.iter_all() {
         for _ in it {
            v.full_all.push((0, *a, *b));
         }
      }
      if let Some(it) = none.index_get(&()) {
         for (a, b) in it {
            v.none_get.push((0, *a, *b));
         }
      }
      for (_, it) in none.iter_all() {
         for (a, b) in it {
            v.none_all.push((0, *a, *b));
         }
      }
      for (k, it) in i0.iter_all() {
         for (b,) in it {
            v.i0_all.push((0, *k.0, *b));
         }
      }
      for (k, it) in i1.iter_all() {
         for (x,) in it {
            v.i1_all.push((0, *x, *k.0));
         }
      }
      let _ = (full.len_estimate(), none.len_estimate(), i0.len_estimate(), i1.len_estimate(), full.is_empty(), i0.is_empty(), i1.is_empty());
      v
   }

   /// size sweep of the pair store (`BinaryRel`) under the binary provider: n pairs that share one column value (one bucket of the
   /// map / of the reverse map grows to n entries) or spread over two values, written through both write paths of the full-index
   /// write view (`insert_if_not_present` = `BinaryRel::insert_by_ref`, `index_insert` = `BinaryRel::insert`), every pair offered
   /// twice; no pair composes with another, so the closure is the set of pairs itself.  bytes: shape 0..=3, n 1..=70
   pub fn binrel_sweep(s: &mut dyn Src, r: &mut Report) {
      let shape = s.byte();
      let n = s.byte();
      s.require(shape < 4 && n >= 1 && n <= 70);
      if s.rejected() {
         return;
      }
      type P = BTreeSet<(u8, u8)>;
      let mut want = P::new();
      let mut new = Bin::default();
      let mut delta = Bin::default();
      let mut total = Bin::default();
      RelIndexMerge::init(&mut new, &mut delta, &mut total);
      let mut w = ToTrRelIndFull::<u8>::default();
      let mut flags_ok = true;
      for round in 0..2u8 {
         for i in 1..=n {
            let key = match shape {
               0 => (i, 0u8),
               1 => (0u8, i),
               2 => (i, 100 + (i % 2)),
               _ => (100 + (i % 2), i),
            };
            if round == 1 || (i + shape) % 2 == 0 {
               let fresh = w.to_rel_index_write(&mut new).insert_if_not_present(&key, ());
               flags_ok &= fresh == want.insert(key);
            } else {
               w.to_rel_index_write(&mut new).index_insert(key, ());
               want.insert(key);
            }
         }
      }
      r.note(format!("shape {} (0: (i,0)  1: (0,i)  2: (i,100+i%2)  3: (100+i%2,i)), n = {}", shape, n));
      chk!(r, "binrel_insert_if_not_present_true_exactly_for_new_pairs", flags_ok);
      let read = |c: &Bin| -> (P, Vec<(u8, u8)>, Vec<(u8, u8)>, Vec<(u8, u8)>) {
         let to_full = ToTrRelIndFull::<u8>::default();
         let to_0 = ToTrRelInd0::<u8>::default();
         let to_1 = ToTrRelInd1::<u8>::default();
         let to_none = ToTrRelIndNone::<u8>::default();
         let full = to_full.to_rel_index(c);
         let i0 = to_0.to_rel_index(c);
         let i1 = to_1.to_rel_index(c);
         let none = to_none.to_rel_index(c);
         let mut fc = P::new();
         let (mut g0, mut g1, mut all) = (vec![], vec![], vec![]);
         for a in (0..=71u8).chain(100..=101) {
            if let Some(it) = i0.index_get(&(a,)) {
               for (b,) in it {
                  g0.push((a, *b));
               }
            }
            if let Some(it) = i1.index_get(&(a,)) {
               for (x,) in it {
                  g1.push((*x, a));
               }
            }
            for b in (0..=71u8).chain(100..=101) {
               if full.contains_key(&(a, b)) {
                  fc.insert((a, b));
               }
            }
         }
         if let Some(it) = none.index_get(&()) {
            for (a, b) in it {
               all.push((*a, *b));
            }
         }
         (fc, g0, g1, all)
      };
      let setof = |v: &Vec<(u8, u8)>| -> P { v.iter().cloned().collect() };
      RelIndexMerge::merge_delta_to_total_new_to_delta(&mut new, &mut delta, &mut total);
      let (fc, g0, g1, all) = read(&delta);
      chk!(r, "binrel_sweep_delta_views_hold_exactly_the_inserted_pairs", fc == want && setof(&g0) == want && setof(&g1) == want && setof(&all) == want);
      RelIndexMerge::merge_delta_to_total_new_to_delta(&mut new, &mut delta, &mut total);
      let (fc, g0, g1, all) = read(&total);
      chk!(r, "binrel_sweep_total_full_index_holds_exactly_the_inserted_pairs", fc == want);
      chk!(r, "binrel_sweep_total_index_0_holds_exactly_the_inserted_pairs_once", setof(&g0) == want && g0.len() == want.len());
      chk!(r, "binrel_sweep_total_index_1_holds_exactly_the_inserted_pairs_once", setof(&g1) == want && g1.len() == want.len());
      chk!(r, "binrel_sweep_total_scan_holds_exactly_the_inserted_pairs_once", setof(&all) == want && all.len() == want.len());
   }

   /// codes: 0 stop, 1..=16 derive (a, b), 17 end of iteration, 18 end of stratum
   pub fn protocol2<const L: usize>(s: &mut dyn Src, r: &mut Report) {
      let mut ops = vec![];
      let mut stopped = false;
      for _ in 0..L {
         let c = s.byte();
         s.require(c <= 18 && (!stopped || c == 0));
         if c == 0 {
            stopped = true;
         } else {
            ops.push(c);
         }
      }
      if s.rejected() {
         return;
      }
      ops.push(18);
      r.note(format!("codes (1 + 4a + b = derive (a, b); 17 = end of iteration; 18 = end of stratum) = {:?}", ops));
      let mut evs = vec![];
      for &c in &ops {
         if c == 18 {
            evs.extend([17, 17, 18]);
         } else {
            evs.push(c);
         }
      }
      let mut field = Bin::default();
      let mut delta = std::mem::take(&mut field);
      let mut total = Bin::default();
      let mut new = Bin::default();
      RelIndexMerge::init(&mut new, &mut delta, &mut total);
      let mut to_full_w = ToTrRelIndFull::<u8>::default();
      let to_full = ToTrRelIndFull::<u8>::default();
      let mut offered = Rows::new();
      let mut merged = Rows::new();
      let mut new_raw = Rows::new();
      for &c in &evs {
         if c == 18 {
            field = std::mem::take(&mut total);
            delta = std::mem::take(&mut field);
            total = Bin::default();
            new = Bin::default();
            RelIndexMerge::init(&mut new, &mut delta, &mut total);
            let known = tc(&merged, 1, D2);
            let d = read2(&delta);
            chk!(r, "trrel_stratum_start_delta_is_everything_known", d.full_contains == known && exact(&d.none_get, &known) && exact(&d.i0_get, &known) && exact(&d.i1_get, &known));
            continue;
         }
         if c <= 16 {
            let c = c - 1;
            let row = (0u8, c / 4, c % 4);
            offered.insert(row);
            let key = (row.1, row.2);
            let in_total = to_full.to_rel_index(&total).contains_key(&key);
            let in_delta = to_full.to_rel_index(&delta).contains_key(&key);
            chk!(r, "trrel_guard_total_or_delta_knows_exactly_the_merged_closure", (in_total || in_delta) == tc(&merged, 1, D2).contains(&row));
            if !in_total && !in_delta {
               let fresh = to_full_w.to_rel_index_write(&mut new).insert_if_not_present(&key, ());
               // a pair that is not yet in `new` must be reported as new (it drives `__changed`)
               chk!(r, "trrel_insert_if_not_present_true_for_pairs_not_yet_in_new", fresh || new_raw.contains(&row));
               new_raw.insert(row);
            }
         } else {
            RelIndexMerge::merge_delta_to_total_new_to_delta(&mut new, &mut delta, &mut total);
            let c_prev = tc(&merged, 1, D2);
            merged = offered.clone();
            let c_now = tc(&merged, 1, D2);
            new_raw.clear();
            let added: Rows = c_now.difference(&c_prev).cloned().collect();
            let t = read2(&total);
            let d = read2(&delta);
            chk!(r, "trrel_total_full_index_is_the_previous_closure", t.full_contains.is_superset(&c_prev) && t.full_contains.is_subset(&c_now) && t.full_get.is_superset(&c_prev) && t.full_get.is_subset(&c_now) && total3(&t.full_all, &c_prev, &c_now));
            chk!(r, "trrel_total_no_index_is_the_previous_closure", total3(&t.none_get, &c_prev, &c_now) && total3(&t.none_all, &c_prev, &c_now));
            chk!(r, "trrel_total_index_0_is_the_previous_closure", total3(&t.i0_get, &c_prev, &c_now) && total3(&t.i0_all, &c_prev, &c_now));
            chk!(r, "trrel_total_index_1_is_the_previous_closure", total3(&t.i1_get, &c_prev, &c_now) && total3(&t.i1_all, &c_prev, &c_now));
            // every delta view must cover the new pairs and stay inside the closure (over-approximating delta is sound, only slower)
            chk!(r, "trrel_delta_full_index_covers_the_new_pairs_within_the_closure",
               d.full_contains.is_superset(&added) && d.full_contains.is_subset(&c_now) && d.full_get.is_superset(&added) && d.full_get.is_subset(&c_now) && covering(&d.full_all, &added, &c_now));
            chk!(r, "trrel_delta_no_index_covers_the_new_pairs_within_the_closure", covering(&d.none_get, &added, &c_now) && covering(&d.none_all, &added, &c_now));
            chk!(r, "trrel_delta_index_0_covers_the_new_pairs_within_the_closure", covering(&d.i0_get, &added, &c_now) && covering(&d.i0_all, &added, &c_now));
            chk!(r, "trrel_delta_index_1_covers_the_new_pairs_within_the_closure", covering(&d.i1_get, &added, &c_now) && covering(&d.i1_all, &added, &c_now));
            if !r.failed.is_empty() && r.notes.len() < 3 {
               r.note(format!("after a merge: expected total = {:?}, expected new pairs in delta = {:?}", c_prev, added));
               r.note(format!("total views: full {:?} none {:?} [0] {:?} [1] {:?}", t.full_contains, t.none_get, t.i0_get, t.i1_get));
               r.note(format!("delta views: full {:?} none {:?} [0] {:?} [1] {:?} / scans [0] {:?} [1] {:?}", d.full_contains, d.none_get, d.i0_get, d.i1_get, d.i0_all, d.i1_all));
            }
         }
      }
      let d = read2(&delta);
      let c_all = tc(&offered, 1, D2);
      chk!(r, "trrel_fixpoint_is_the_transitive_closure", d.full_contains == c_all && exact(&d.none_get, &c_all) && exact(&d.i0_get, &c_all) && exact(&d.i1_get, &c_all));
      // kept as its own obligation: the clause of the property that the pinned tree violated ("including pairs (x,x) implied by cycles")
      chk!(r, "trrel_cycles_imply_reflexive_pairs", d.full_contains == tc_full(&offered, 1, D2) || d.full_contains != c_all);
      // the other write path: index_insert (BinaryRel::insert) loads facts into `new` before run(); one merge closes them
      let mut n2 = Bin::default();
      let mut d2 = Bin::default();
      let mut t2 = Bin::default();
      RelIndexMerge::init(&mut n2, &mut d2, &mut t2);
      for &(_, a, b) in &offered {
         RelIndexWrite::index_insert(&mut to_full_w.to_rel_index_write(&mut n2), (a, b), ());
      }
      RelIndexMerge::merge_delta_to_total_new_to_delta(&mut n2, &mut d2, &mut t2);
      let dv = read2(&d2);
      chk!(r, "trrel_index_insert_then_merge_gives_the_closure", dv.full_contains == c_all && exact(&dv.none_get, &c_all) && exact(&dv.i0_get, &c_all) && exact(&dv.i1_get, &c_all) && exact(&dv.i1_all, &c_all));
   }

   // ---------------------------------------------------------------------------------------------------------------
   // ternary provider r(K, T, T), 2 keys x 3 items, both reverse maps present
   const D3: usize = 3;
   type Tern = TrRel2IndCommonWrapper<true, true, u8, u8>;
   struct V3 {
      full_contains: Rows,
      full_get: Rows,
      full_all: Vec<(u8, u8, u8)>,
      none_get: Vec<(u8, u8, u8)>,
      none_all: Vec<(u8, u8, u8)>,
      lookups: Vec<(&'static str, Vec<(u8, u8, u8)>)>,
      scans: Vec<(&'static str, Vec<(u8, u8, u8)>)>,
   }
   fn read3(c: &Tern, k3: usize) -> V3 {
      let to_full = ToTrRel2IndFull::<u8, u8>::default();
      let to_none = ToTrRel2IndNone::<u8, u8>::default();
      let to_0 = ToTrRel2Ind0::<u8, u8>::default();
      let to_1 = ToTrRel2Ind1::<u8, u8>::default();
      let to_2 = ToTrRel2Ind2::<u8, u8>::default();
      let to_01 = ToTrRel2Ind0_1::<u8, u8>::default();
      let to_02 = ToTrRel2Ind0_2::<u8, u8>::default();
      let to_12 = ToTrRel2Ind1_2::<u8, u8>::default();
      let full = to_full.to_rel_index(c);
      let none = to_none.to_rel_index(c);
      let i0 = to_0.to_rel_index(c);
      let i1 = to_1.to_rel_index(c);
      let i2 = to_2.to_rel_index(c);
      let i01 = to_01.to_rel_index(c);
      let i02 = to_02.to_rel_index(c);
      let i12 = to_12.to_rel_index(c);
      let mut v = V3 { full_contains: Rows::new(), full_get: Rows::new(), full_all: vec![], none_get: vec![], none_all: vec![], lookups: vec![], scans: vec![] };
      let (mut g0, mut g1, mut g2, mut g01, mut g02, mut g12) = (vec![], vec![], vec![], vec![], vec![], vec![]);
      for k in 0..k3 as u8 {
         if let Some(it) = i0.index_get(&(k,)) {
            for (a, b) in it {
               g0.push((k, *a, *b));
            }
         }
         for a in 0..D3 as u8 {
            if let Some(it) = i01.index_get(&(k, a)) {
               for (b,) in it {
                  g01.push((k, a, *b));
               }
            }
            if let Some(it) = i02.index_get(&(k, a)) {
               for (x,) in it {
                  g02.push((k, *x, a));
               }
            }
            for b in 0..D3 as u8 {
               if full.contains_key(&(k, a, b)) {
                  v.full_contains.insert((k, a, b));
               }
               if let Some(it) = full.index_get(&(k, a, b)) {
                  if it.count() == 1 {
                     v.full_get.insert((k, a, b));
                  } else {
                     v.full_get.insert((255, 255, 255));
                  }
               }
            }
         }
      }
      for a in 0..D3 as u8 {
         if let Some(it) = i1.index_get(&(a,)) {
            for (k, b) in it {
               g1.push((*k, a, *b));
            }
         }
         if let Some(it) = i2.index_get(&(a,)) {
            for (k, x) in it {
               g2.push((*k, *x, a));
            }
         }
         for b in 0..D3 as u8 {
            if let Some(it) = i12.index_get(&(a, b)) {
               for (k,) in it {
                  g12.push((*k, a, b));
               }
            }
         }
      }
      for ((k, a, b), it) in full.iter_all() {
         for _ in it {
            v.full_all.push((*k, *a, *b));
         }
      }
      if let Some(it) = none.index_get(&()) {
         for (k, a, b) in it {
            v.none_get.push((*k, *a, *b));
         }
      }
      for (_, it) in none.iter_all() {
         for (k, a, b) in it {
            v.none_all.push((*k, *a, *b));
         }
      }
      let (mut s0, mut s1, mut s2, mut s01, mut s02, mut s12) = (vec![], vec![], vec![], vec![], vec![], vec![]);
      for (k, it) in i0.iter_all() {
         for (a, b) in it {
            s0.push((*k.0, *a, *b));
         }
      }
      for (a, it) in i1.iter_all() {
         for (k, b) in it {
            s1.push((*k, *a.0, *b));
         }
      }
      for (b, it) in i2.iter_all() {
         for (k, a) in it {
            s2.push((*k, *a, *b.0));
         }
      }
      for ((k, a), it) in i01.iter_all() {
         for (b,) in it {
            s01.push((*k, *a, *b));
         }
      }
      for ((k, b), it) in i02.iter_all() {
         for (a,) in it {
            s02.push((*k, *a, *b));
         }
      }
      for ((a, b), it) in i12.iter_all() {
         for (k,) in it {
            s12.push((*k, *a, *b));
         }
      }
      v.lookups = vec![("[0]", g0), ("[1]", g1), ("[2]", g2), ("[0,1]", g01), ("[0,2]", g02), ("[1,2]", g12)];
      v.scans = vec![("[0]", s0), ("[1]", s1), ("[2]", s2), ("[0,1]", s01), ("[0,2]", s02), ("[1,2]", s12)];
      let _ = (full.len_estimate(), none.len_estimate(), i0.len_estimate(), i1.len_estimate(), i2.len_estimate(), i01.len_estimate(), i02.len_estimate(), i12.len_estimate());
      v
   }

   /// codes: 0 stop, 1..=18 derive (k, a, b), 19 end of iteration, 20 end of stratum
   pub fn protocol3<const L: usize, const K3: usize>(s: &mut dyn Src, r: &mut Report) {
      let mut ops = vec![];
      let mut stopped = false;
      for _ in 0..L {
         let c = s.byte();
         s.require((c as usize) <= 9 * K3 + 2 && (!stopped || c == 0));
         if c == 0 {
            stopped = true;
         } else {
            ops.push(c);
         }
      }
      if s.rejected() {
         return;
      }
      let (it_end, st_end) = ((9 * K3 + 1) as u8, (9 * K3 + 2) as u8);
      ops.push(st_end);
      r.note(format!("codes (1 + 9k + 3a + b = derive (k, a, b); then end of iteration, end of stratum) = {:?}", ops));
      let mut evs = vec![];
      for &c in &ops {
         if c == st_end {
            evs.extend([it_end, it_end, st_end]);
         } else {
            evs.push(c);
         }
      }
      let mut field = Tern::default();
      let mut delta = std::mem::replace(&mut field, Tern::default());
      let mut total = Tern::default();
      let mut new = Tern::default();
      RelIndexMerge::init(&mut new, &mut delta, &mut total);
      let mut to_full_w = ToTrRel2IndFull::<u8, u8>::default();
      let to_full = ToTrRel2IndFull::<u8, u8>::default();
      let mut offered = Rows::new();
      let mut merged = Rows::new();
      let mut new_raw = Rows::new();
      for &c in &evs {
         if c == st_end {
            field = std::mem::replace(&mut total, Tern::default());
            delta = std::mem::replace(&mut field, Tern::default());
            total = Tern::default();
            new = Tern::default();
            RelIndexMerge::init(&mut new, &mut delta, &mut total);
            let known = tc(&merged, K3, D3);
            let d = read3(&delta, K3);
            chk!(r, "ternary_trrel_stratum_start_delta_is_everything_known", d.full_contains == known && exact(&d.none_get, &known) && d.lookups.iter().all(|(_, g)| exact(g, &known)));
            continue;
         }
         if c < it_end {
            let c = c - 1;
            let row = (c / 9, (c % 9) / 3, c % 3);
            offered.insert(row);
            let in_total = to_full.to_rel_index(&total).contains_key(&row);
            let in_delta = to_full.to_rel_index(&delta).contains_key(&row);
            chk!(r, "ternary_trrel_guard_total_or_delta_knows_exactly_the_merged_closure", (in_total || in_delta) == tc(&merged, K3, D3).contains(&row));
            if !in_total && !in_delta {
               let fresh = to_full_w.to_rel_index_write(&mut new).insert_if_not_present(&row, ());
               chk!(r, "ternary_trrel_insert_if_not_present_true_for_rows_not_yet_in_new", fresh || new_raw.contains(&row));
               new_raw.insert(row);
            }
         } else {
            RelIndexMerge::merge_delta_to_total_new_to_delta(&mut new, &mut delta, &mut total);
            let c_prev = tc(&merged, K3, D3);
            merged = offered.clone();
            let c_now = tc(&merged, K3, D3);
            new_raw.clear();
            let added: Rows = c_now.difference(&c_prev).cloned().collect();
            let t = read3(&total, K3);
            let d = read3(&delta, K3);
            chk!(r, "ternary_trrel_total_full_index_is_the_previous_closure", t.full_contains.is_superset(&c_prev) && t.full_contains.is_subset(&c_now) && t.full_get.is_superset(&c_prev) && t.full_get.is_subset(&c_now) && total3(&t.full_all, &c_prev, &c_now));
            chk!(r, "ternary_trrel_total_no_index_is_the_previous_closure", total3(&t.none_get, &c_prev, &c_now) && total3(&t.none_all, &c_prev, &c_now));
            chk!(r, "ternary_trrel_total_lookups_are_the_previous_closure", t.lookups.iter().all(|(_, g)| total3(g, &c_prev, &c_now)));
            chk!(r, "ternary_trrel_total_scans_are_the_previous_closure", t.scans.iter().all(|(_, g)| total3(g, &c_prev, &c_now)));
            chk!(r, "ternary_trrel_delta_full_index_covers_the_new_rows_within_the_closure",
               d.full_contains.is_superset(&added) && d.full_contains.is_subset(&c_now) && d.full_get.is_superset(&added) && d.full_get.is_subset(&c_now) && covering(&d.full_all, &added, &c_now));
            chk!(r, "ternary_trrel_delta_no_index_covers_the_new_rows_within_the_closure", covering(&d.none_get, &added, &c_now) && covering(&d.none_all, &added, &c_now));
            chk!(r, "ternary_trrel_delta_lookups_cover_the_new_rows_within_the_closure", d.lookups.iter().all(|(_, g)| covering(g, &added, &c_now)));
            chk!(r, "ternary_trrel_delta_scans_cover_the_new_rows_within_the_closure", d.scans.iter().all(|(_, g)| covering(g, &added, &c_now)));
            if !r.failed.is_empty() && r.notes.len() < 4 {
               r.note(format!("after a merge: expected total = {:?}, expected new rows in delta = {:?}", c_prev, added));
               r.note(format!("total: full {:?} lookups {:?}", t.full_contains, t.lookups));
               r.note(format!("delta: full {:?} lookups {:?} scans {:?}", d.full_contains, d.lookups, d.scans));
            }
         }
      }
      let d = read3(&delta, K3);
      let c_all = tc(&offered, K3, D3);
      chk!(r, "ternary_trrel_fixpoint_is_the_per_key_transitive_closure", d.full_contains == c_all && exact(&d.none_get, &c_all) && d.lookups.iter().all(|(_, g)| exact(g, &c_all)));
      chk!(r, "ternary_trrel_cycles_imply_reflexive_pairs", d.full_contains == tc_full(&offered, K3, D3) || d.full_contains != c_all);
   }
}
#[cfg(not(kani))]
pub use imp::{binrel_sweep, protocol2, protocol3};
#[cfg(kani)]
pub fn binrel_sweep(_s: &mut dyn Src, _r: &mut Report) {}
#[cfg(kani)]
pub fn protocol2<const L: usize>(_s: &mut dyn Src, _r: &mut Report) {}
#[cfg(kani)]
pub fn protocol3<const L: usize, const K3: usize>(_s: &mut dyn Src, _r: &mut Report) {}
