use ufcheck as hc;
include!("runner.rs");
