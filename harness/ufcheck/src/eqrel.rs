//! BOUNDED (native only): the delta/total protocol of the binary eqrel provider (ascent_byods_rels::eqrel_ind) driven the
//! way ascent-generated code drives it -- head updates through the full-index write view of the `new` version guarded by
//! contains_key on total and delta, then RelIndexMerge::merge_delta_to_total_new_to_delta at the end of every iteration --
//! and read back through every index view the macros hand out ([0,1] full, [0] / [1], [] none), compared with the explicit
//! equivalence closure.  Companion of the Verus proof of union_find::EqRel (contracts/eqrel.py); never counted as proved.
use crate::{chk, Report, Src};

#[cfg(not(kani))]
mod imp {
   use super::*;
   use ascent::internal::{RelFullIndexRead, RelFullIndexWrite, RelIndexMerge, RelIndexRead, RelIndexReadAll, RelIndexWrite, ToRelIndex};
   use ascent_byods_rels::eqrel_ind::{EqRelIndCommon, ToEqRelInd0, ToEqRelInd0_1, ToEqRelIndNone};
   use std::collections::BTreeSet;

   const D: usize = 4;
   type Pairs = BTreeSet<(u8, u8)>;

   fn closure(p: &Pairs) -> Pairs {
      let mut r = [[false; D]; D];
      for &(a, b) in p {
         let (a, b) = (a as usize, b as usize);
         r[a][b] = true;
         r[b][a] = true;
         r[a][a] = true;
         r[b][b] = true;
      }
      for k in 0..D {
         for i in 0..D {
            for j in 0..D {
               if r[i][k] && r[k][j] {
                  r[i][j] = true;
               }
            }
         }
      }
      let mut out = Pairs::new();
      for i in 0..D {
         for j in 0..D {
            if r[i][j] {
               out.insert((i as u8, j as u8));
            }
         }
      }
      out
   }

   struct Views {
      full_contains: Pairs,
      full_get: Pairs,
      full_all: Vec<(u8, u8)>,
      ind0_get: Pairs,
      ind0_all: Vec<(u8, u8)>,
      none_get: Vec<(u8, u8)>,
      none_all: Vec<(u8, u8)>,
   }
   fn read(c: &EqRelIndCommon<u8>) -> Views {
      let to_full = ToEqRelInd0_1::<u8>::default();
      let to_0 = ToEqRelInd0::<u8>::default();
      let to_none = ToEqRelIndNone::<u8>::default();
      let full = to_full.to_rel_index(c);
      let ind0 = to_0.to_rel_index(c);
      let none = to_none.to_rel_index(c);
      let mut v = Views {
         full_contains: Pairs::new(),
         full_get: Pairs::new(),
         full_all: vec![],
         ind0_get: Pairs::new(),
         ind0_all: vec![],
         none_get: vec![],
         none_all: vec![],
      };
      for x in 0..D as u8 {
         for y in 0..D as u8 {
            if full.contains_key(&(x, y)) {
               v.full_contains.insert((x, y));
            }
            if let Some(it) = full.index_get(&(x, y)) {
               if it.count() == 1 {
                  v.full_get.insert((x, y));
               } else {
                  v.full_get.insert((255, 255));
               }
            }
         }
         if let Some(it) = ind0.index_get(&(x,)) {
            for (y,) in it {
               if !v.ind0_get.insert((x, *y)) {
                  v.ind0_get.insert((254, 254)); // a value repeated under one key
               }
            }
         }
      }
      for ((x, y), it) in full.iter_all() {
         for _ in it {
            v.full_all.push((*x, *y));
         }
      }
      for (k, it) in ind0.iter_all() {
         for (y,) in it {
            v.ind0_all.push((k.0, *y));
         }
      }
      if let Some(it) = none.index_get(&()) {
         for (x, y) in it {
            v.none_get.push((*x, *y));
         }
      }
      for (_, it) in none.iter_all() {
         for (x, y) in it {
            v.none_all.push((*x, *y));
         }
      }
      let _ = (full.len_estimate(), ind0.len_estimate(), none.len_estimate());
      v
   }
   fn as_set(v: &[(u8, u8)]) -> Pairs { v.iter().cloned().collect() }
   fn no_dups(v: &[(u8, u8)]) -> bool { as_set(v).len() == v.len() }

   /// codes: 0 stop (only zeros may follow), 1..=16 the rule derives the pair (a, b), 17 end of the iteration (merge)
   pub fn protocol<const L: usize>(s: &mut dyn Src, r: &mut Report) {
      let mut ops = vec![];
      let mut stopped = false;
      for _ in 0..L {
         let c = s.byte();
         s.require(c <= 17 && (!stopped || c == 0));
         if c == 0 {
            stopped = true;
         } else {
            ops.push(c);
         }
      }
      if s.rejected() {
         return;
      }
      // two closing iterations so that everything offered reaches total
      ops.push(17);
      ops.push(17);
      r.note(format!("codes (1 + 4a + b = derive (a, b); 17 = end of iteration) = {:?}", ops));
      let mut new = EqRelIndCommon::<u8>::default();
      let mut delta = EqRelIndCommon::<u8>::default();
      let mut total = EqRelIndCommon::<u8>::default();
      let mut to_full_w = ToEqRelInd0_1::<u8>::default();
      let to_full = ToEqRelInd0_1::<u8>::default();
      let mut offered = Pairs::new(); // everything derived so far
      let mut offered_before = Pairs::new(); // everything derived before the current iteration
      let mut new_this_iter = Pairs::new(); // pairs that got past the guard in the current iteration
      let mut known_prev = Pairs::new(); // closure of what had been merged one iteration earlier (= expected total)
      for &c in &ops {
         if c <= 16 {
            let row = ((c - 1) / 4, (c - 1) % 4);
            offered.insert(row);
            let in_total = to_full.to_rel_index(&total).contains_key(&row);
            let in_delta = to_full.to_rel_index(&delta).contains_key(&row);
            let known = closure(&offered_before);
            chk!(r, "guard_total_or_delta_knows_exactly_the_merged_closure", (in_total || in_delta) == known.contains(&row));
            if !in_total && !in_delta {
               let already = closure(&new_this_iter).contains(&row);
               let fresh = to_full_w.to_rel_index_write(&mut new).insert_if_not_present(&row, ());
               chk!(r, "insert_if_not_present_reports_new_information_exactly", fresh == !already);
               new_this_iter.insert(row);
            }
         } else {
            RelIndexMerge::merge_delta_to_total_new_to_delta(&mut new, &mut delta, &mut total);
            let c_prev = closure(&offered_before); // what delta+total held before this merge
            offered_before = offered.clone();
            let c_now = closure(&offered_before);
            new_this_iter.clear();
            let added: Pairs = c_now.difference(&c_prev).cloned().collect();
            let t = read(&total);
            let d = read(&delta);
            let n = read(&new);
            // total = everything known one iteration ago, exactly, through every view
            chk!(r, "total_full_index_is_the_previous_closure", t.full_contains == c_prev && t.full_get == c_prev && as_set(&t.full_all) == c_prev && no_dups(&t.full_all));
            chk!(r, "total_index_0_is_the_previous_closure", t.ind0_get == c_prev && as_set(&t.ind0_all) == c_prev && no_dups(&t.ind0_all));
            chk!(r, "total_no_index_is_the_previous_closure", as_set(&t.none_get) == c_prev && as_set(&t.none_all) == c_prev && no_dups(&t.none_get));
            // delta: contains every pair that is new in this iteration, and nothing that is not in the closure
            chk!(r, "delta_full_index_is_exactly_the_new_pairs", d.full_contains == added && d.full_get == added && as_set(&d.full_all) == added && no_dups(&d.full_all));
            chk!(r, "delta_index_0_lookup_is_exactly_the_new_pairs", d.ind0_get == added);
            chk!(r, "delta_index_0_scan_covers_the_new_pairs_within_the_closure", as_set(&d.ind0_all).is_superset(&added) && as_set(&d.ind0_all).is_subset(&c_now));
            chk!(r, "delta_no_index_is_exactly_the_new_pairs", as_set(&d.none_get) == added && as_set(&d.none_all) == added && no_dups(&d.none_get));
            chk!(r, "new_is_empty_after_the_merge", n.full_contains.is_empty() && n.full_all.is_empty() && n.ind0_all.is_empty() && n.none_get.is_empty());
            let _ = known_prev;
            known_prev = c_prev;
         }
      }
      // after the two closing iterations everything offered is in total and delta is empty
      let t = read(&total);
      let d = read(&delta);
      let c_all = closure(&offered);
      chk!(r, "fixpoint_total_is_the_equivalence_closure", t.full_contains == c_all && as_set(&t.full_all) == c_all && t.ind0_get == c_all && as_set(&t.none_get) == c_all);
      chk!(r, "fixpoint_delta_is_empty", d.full_contains.is_empty() && d.full_all.is_empty() && d.ind0_get.is_empty() && d.none_get.is_empty());
      chk!(r, "fixpoint_count_exact", total.count_exact() == c_all.len());
      // index_insert on the common structure is the other write path (used when facts are loaded before run())
      let mut direct = EqRelIndCommon::<u8>::default();
      for &(a, b) in &offered {
         RelIndexWrite::index_insert(&mut direct, (a, b), ());
      }
      chk!(r, "index_insert_builds_the_same_closure", read(&direct).full_contains == c_all);
   }
}
#[cfg(not(kani))]
pub use imp::protocol;
#[cfg(kani)]
pub fn protocol<const L: usize>(_s: &mut dyn Src, _r: &mut Report) {}
