//! BOUNDED (native only): the delta/total protocol of the binary eqrel provider (ascent_byods_rels::eqrel_ind) driven the
//! way ascent-generated code drives it -- head updates through the full-index write view of the `new` version guarded by
//! contains_key on total and delta, then RelIndexMerge::merge_delta_to_total_new_to_delta at the end of every iteration --
//! and read back through every index view the macros hand out ([0,1] full, [0] / [1], [] none), compared with the explicit
//! equivalence closure.  Companion of the Verus proof of union_find::EqRel (contracts/eqrel.py); never counted as proved.
use crate::{chk, Report, Src};

#[cfg(not(kani))]
mod imp {
   use super::*;
   use ascent::internal::{RelFullIndexRead, RelFullIndexWrite, RelIndexMerge, RelIndexRead, RelIndexReadAll, RelIndexWrite, ToRelIndex};
   use ascent_byods_rels::eqrel_ind::{EqRelIndCommon, ToEqRelInd0, ToEqRelInd0_1, ToEqRelIndNone};
   use std::collections::BTreeSet;

   const D: usize = 4;
   type Pairs = BTreeSet<(u8, u8)>;

   fn closure(p: &Pairs) -> Pairs {
      let mut r = [[false; D]; D];
      for &(a, b) in p {
         let (a, b) = (a as usize, b as usize);
         r[a][b] = true;
         r[b][a] = true;
         r[a][a] = true;
         r[b][b] = true;
      }
      for k in 0..D {
         for i in 0..D {
            for j in 0..D {
               if r[i][k] && r[k][j] {
                  r[i][j] = true;
               }
            }
         }
      }
      let mut out = Pairs::new();
      for i in 0..D {
         for j in 0..D {
            if r[i][j] {
               out.insert((i as u8, j as u8));
            }
         }
      }
      out
   }

   struct Views {
      full_contains: Pairs,
      full_get: Pairs,
      full_all: Vec<(u8, u8)>,
      ind0_get: Pairs,
      ind0_all: Vec<(u8, u8)>,
      none_get: Vec<(u8, u8)>,
      none_all: Vec<(u8, u8)>,
   }
   fn read(c: &EqRelIndCommon<u8>) -> Views {
      let to_full = ToEqRelInd0_1::<u8>::default();
      let to_0 = ToEqRelInd0::<u8>::default();
      let to_none = ToEqRelIndNone::<u8>::default();
      let full = to_full.to_rel_index(c);
      let ind0 = to_0.to_rel_index(c);
      let none = to_none.to_rel_index(c);
      let mut v = Views {
         full_contains: Pairs::new(),
         full_get: Pairs::new(),
         full_all: vec![],
         ind0_get: Pairs::new(),
         ind0_all: vec![],
         none_get: vec![],
         none_all: vec![],
      };
      for x in 0..D as u8 {
         for y in 0..D as u8 {
            if full.contains_key(&(x, y)) {
               v.full_contains.insert((x, y));
            }
            if let Some(it) = full.index_get(&(x, y)) {
               if it.count() == 1 {
                  v.full_get.insert((x, y));
               } else {
                  v.full_get.insert((255, 255));
               }
            }
         }
         if let Some(it) = ind0.index_get(&(x,)) {
            for (y,) in it {
               if !v.ind0_get.insert((x, *y)) {
                  v.ind0_get.insert((254, 254)); // a value repeated under one key
               }
            }
         }
      }
      for ((x, y), it) in full.iter_all() {
         for _ in it {
            v.full_all.push((*x, *y));
         }
      }
      for (k, it) in ind0.iter_all() {
         for (y,) in it {
            v.ind0_all.push((k.0, *y));
         }
      }
      if let Some(it) = none.index_get(&()) {
         for (x, y) in it {
            v.none_get.push((*x, *y));
         }
      }
      for (_, it) in none.iter_all() {
         for (x, y) in it {
            v.none_all.push((*x, *y));
         }
      }
      let _ = (full.len_estimate(), ind0.len_estimate(), none.len_estimate());
      v
   }
   fn as_set(v: &[(u8, u8)]) -> Pairs { v.iter().cloned().collect() }
   fn no_dups(v: &[(u8, u8)]) -> bool { as_set(v).len() == v.len() }

   /// codes: 0 stop (only zeros may follow), 1..=16 the rule derives the pair (a, b), 17 end of the iteration (merge),
   /// 18 end of the stratum (two closing merges, total goes back to the field, the next stratum starts with it as delta)
   pub fn protocol<const L: usize>(s: &mut dyn Src, r: &mut Report) {
      let mut ops = vec![];
      let mut stopped = false;
      for _ in 0..L {
         let c = s.byte();
         s.require(c <= 18 && (!stopped || c == 0));
         if c == 0 {
            stopped = true;
         } else {
            ops.push(c);
         }
      }
      if s.rejected() {
         return;
      }
      // two closing iterations so that everything offered reaches total
      ops.push(17);
      ops.push(17);
      r.note(format!("codes (1 + 4a + b = derive (a, b); 17 = end of iteration; 18 = end of stratum) = {:?}", ops));
      let mut new = EqRelIndCommon::<u8>::default();
      let mut delta = EqRelIndCommon::<u8>::default();
      let mut total = EqRelIndCommon::<u8>::default();
      let mut to_full_w = ToEqRelInd0_1::<u8>::default();
      let to_full = ToEqRelInd0_1::<u8>::default();
      let mut offered = Pairs::new(); // everything derived so far
      let mut offered_before = Pairs::new(); // everything derived before the current iteration
      let mut new_this_iter = Pairs::new(); // pairs that got past the guard in the current iteration
      let mut stratum_base = Pairs::new(); // what the current stratum started with (it sits in delta first, total starts empty)
      let mut fresh_stratum = true; // no merge yet in this stratum
      // expanded event list: 18 = merge, merge, restart
      let mut evs = vec![];
      for &c in &ops {
         if c == 18 {
            evs.extend([17, 17, 18]);
         } else {
            evs.push(c);
         }
      }
      for &c in &evs {
         if c == 18 {
            // generated code: `_self.field = total` at the end of a stratum, `delta = take(field); total = default; new = default` at the start of the next
            delta = std::mem::take(&mut total);
            new = EqRelIndCommon::<u8>::default();
            stratum_base = closure(&offered_before);
            fresh_stratum = true;
            let d = read(&delta);
            chk!(r, "stratum_start_delta_is_everything_known", d.full_contains == stratum_base && as_set(&d.none_get) == stratum_base && d.ind0_get == stratum_base);
            continue;
         }
         if c <= 16 {
            let row = ((c - 1) / 4, (c - 1) % 4);
            offered.insert(row);
            let in_total = to_full.to_rel_index(&total).contains_key(&row);
            let in_delta = to_full.to_rel_index(&delta).contains_key(&row);
            let known = closure(&offered_before);
            chk!(r, "guard_total_or_delta_knows_exactly_the_merged_closure", (in_total || in_delta) == known.contains(&row));
            if !in_total && !in_delta {
               let already = closure(&new_this_iter).contains(&row);
               let fresh = to_full_w.to_rel_index_write(&mut new).insert_if_not_present(&row, ());
               // new information must be reported (it drives `__changed`); reporting a redundant pair as new is harmless
               chk!(r, "insert_if_not_present_reports_new_information", fresh || already);
               new_this_iter.insert(row);
            }
         } else {
            RelIndexMerge::merge_delta_to_total_new_to_delta(&mut new, &mut delta, &mut total);
            let c_prev = closure(&offered_before); // what delta+total held before this merge
            let _ = (&stratum_base, fresh_stratum);
            fresh_stratum = false;
            offered_before = offered.clone();
            let c_now = closure(&offered_before);
            new_this_iter.clear();
            let added: Pairs = c_now.difference(&c_prev).cloned().collect();
            let t = read(&total);
            let d = read(&delta);
            let n = read(&new);
            // total = everything known one iteration ago, exactly, through every view
            // total must hold everything known one iteration ago, nothing that is not known now, and no row twice
            // (holding some of this iteration's pairs already would only repeat derivations)
            let tot = |v: &Pairs| v.is_superset(&c_prev) && v.is_subset(&c_now);
            chk!(r, "total_full_index_is_the_previous_closure", tot(&t.full_contains) && tot(&t.full_get) && tot(&as_set(&t.full_all)) && no_dups(&t.full_all));
            chk!(r, "total_index_0_is_the_previous_closure", tot(&t.ind0_get) && tot(&as_set(&t.ind0_all)) && no_dups(&t.ind0_all));
            chk!(r, "total_no_index_is_the_previous_closure", tot(&as_set(&t.none_get)) && tot(&as_set(&t.none_all)) && no_dups(&t.none_get));
            // delta: contains every pair that is new in this iteration, and nothing that is not in the closure
            // every delta view must cover the new pairs and stay inside the closure (over-approximating delta is sound for
            // semi-naive evaluation, only slower); lookups and scans of one view must agree
            let cov = |v: &Pairs| v.is_superset(&added) && v.is_subset(&c_now);
            chk!(r, "delta_full_index_covers_the_new_pairs_within_the_closure", cov(&d.full_contains) && cov(&d.full_get) && cov(&as_set(&d.full_all)));
            chk!(r, "delta_index_0_lookup_covers_the_new_pairs_within_the_closure", cov(&d.ind0_get));
            chk!(r, "delta_index_0_scan_covers_the_new_pairs_within_the_closure", as_set(&d.ind0_all).is_superset(&added) && as_set(&d.ind0_all).is_subset(&c_now));
            chk!(r, "delta_no_index_covers_the_new_pairs_within_the_closure", cov(&as_set(&d.none_get)) && cov(&as_set(&d.none_all)));
            chk!(r, "new_is_empty_after_the_merge", n.full_contains.is_empty() && n.full_all.is_empty() && n.ind0_all.is_empty() && n.none_get.is_empty());
         }
      }
      // after the two closing iterations everything offered is in total and delta is empty
      let t = read(&total);
      let d = read(&delta);
      let c_all = closure(&offered);
      chk!(r, "fixpoint_total_is_the_equivalence_closure", t.full_contains == c_all && as_set(&t.full_all) == c_all && t.ind0_get == c_all && as_set(&t.none_get) == c_all);
      // (what is left in delta after the closing iterations is dropped by generated code; it only has to stay inside the closure)
      chk!(r, "fixpoint_delta_stays_inside_the_closure", d.full_contains.is_subset(&c_all) && as_set(&d.full_all).is_subset(&c_all) && d.ind0_get.is_subset(&c_all) && as_set(&d.none_get).is_subset(&c_all));
      chk!(r, "fixpoint_count_exact", total.count_exact() == c_all.len());
      // index_insert on the common structure is the other write path (used when facts are loaded before run())
      let mut direct = EqRelIndCommon::<u8>::default();
      for &(a, b) in &offered {
         RelIndexWrite::index_insert(&mut direct, (a, b), ());
      }
      chk!(r, "index_insert_builds_the_same_closure", read(&direct).full_contains == c_all);
   }

   // ---------------------------------------------------------------------------------------------------------------
   // ternary provider r(K, T, T): one binary eqrel per key (eqrel_ternary.rs), same protocol
   use ascent_byods_rels::eqrel_ternary::{EqRel2IndCommonWithReverse, ToEqRel2Ind0, ToEqRel2Ind0_1, ToEqRel2Ind1, ToEqRel2Ind1_2, ToEqRel2IndFull, ToEqRel2IndNone};
   const D3: usize = 3;
   type Rows = BTreeSet<(u8, u8, u8)>;
   type Tern = EqRel2IndCommonWithReverse<u8, u8>;

   fn closure3(p: &Rows, k3: usize) -> Rows {
      let mut out = Rows::new();
      for k in 0..k3 as u8 {
         let mut r = [[false; D3]; D3];
         for &(kk, a, b) in p {
            if kk == k {
               let (a, b) = (a as usize, b as usize);
               r[a][b] = true;
               r[b][a] = true;
               r[a][a] = true;
               r[b][b] = true;
            }
         }
         for m in 0..D3 {
            for i in 0..D3 {
               for j in 0..D3 {
                  if r[i][m] && r[m][j] {
                     r[i][j] = true;
                  }
               }
            }
         }
         for i in 0..D3 {
            for j in 0..D3 {
               if r[i][j] {
                  out.insert((k, i as u8, j as u8));
               }
            }
         }
      }
      out
   }

   struct Views3 {
      full_contains: Rows,
      full_get: Rows,
      full_all: Vec<(u8, u8, u8)>,
      none_get: Vec<(u8, u8, u8)>,
      none_all: Vec<(u8, u8, u8)>,
      ind0_get: Vec<(u8, u8, u8)>,
      ind0_all: Vec<(u8, u8, u8)>,
      ind01_get: Vec<(u8, u8, u8)>,
      ind01_all: Vec<(u8, u8, u8)>,
      ind1_get: Vec<(u8, u8, u8)>,
      ind1_all: Vec<(u8, u8, u8)>,
      ind12_get: Vec<(u8, u8, u8)>,
      ind12_all: Vec<(u8, u8, u8)>,
   }
   fn read3(c: &Tern, k3: usize) -> Views3 {
      let to_full = ToEqRel2IndFull::<u8, u8>::default();
      let to_none = ToEqRel2IndNone::<u8, u8>::default();
      let to_0 = ToEqRel2Ind0::<u8, u8>::default();
      let to_01 = ToEqRel2Ind0_1::<u8, u8>::default();
      let to_1 = ToEqRel2Ind1::<u8, u8>::default();
      let to_12 = ToEqRel2Ind1_2::<u8, u8>::default();
      let full = to_full.to_rel_index(c);
      let none = to_none.to_rel_index(c);
      let i0 = to_0.to_rel_index(c);
      let i01 = to_01.to_rel_index(c);
      let i1 = to_1.to_rel_index(c);
      let i12 = to_12.to_rel_index(c);
      let mut v = Views3 {
         full_contains: Rows::new(),
         full_get: Rows::new(),
         full_all: vec![],
         none_get: vec![],
         none_all: vec![],
         ind0_get: vec![],
         ind0_all: vec![],
         ind01_get: vec![],
         ind01_all: vec![],
         ind1_get: vec![],
         ind1_all: vec![],
         ind12_get: vec![],
         ind12_all: vec![],
      };
      for k in 0..k3 as u8 {
         if let Some(it) = i0.index_get(&(k,)) {
            for (a, b) in it {
               v.ind0_get.push((k, *a, *b));
            }
         }
         for a in 0..D3 as u8 {
            if let Some(it) = i01.index_get(&(k, a)) {
               for (b,) in it {
                  v.ind01_get.push((k, a, *b));
               }
            }
            for b in 0..D3 as u8 {
               if full.contains_key(&(k, a, b)) {
                  v.full_contains.insert((k, a, b));
               }
               if let Some(it) = full.index_get(&(k, a, b)) {
                  if it.count() == 1 {
                     v.full_get.insert((k, a, b));
                  } else {
                     v.full_get.insert((255, 255, 255));
                  }
               }
            }
         }
      }
      for a in 0..D3 as u8 {
         if let Some(it) = i1.index_get(&(a,)) {
            for (k, b) in it {
               v.ind1_get.push((*k, a, *b));
            }
         }
         for b in 0..D3 as u8 {
            if let Some(it) = i12.index_get(&(a, b)) {
               for (k,) in it {
                  v.ind12_get.push((*k, a, b));
               }
            }
         }
      }
      for ((k, a, b), it) in full.iter_all() {
         for _ in it {
            v.full_all.push((*k, *a, *b));
         }
      }
      if let Some(it) = none.index_get(&()) {
         for (k, a, b) in it {
            v.none_get.push((*k, *a, *b));
         }
      }
      for (_, it) in none.iter_all() {
         for (k, a, b) in it {
            v.none_all.push((*k, *a, *b));
         }
      }
      for (k, it) in i0.iter_all() {
         for (a, b) in it {
            v.ind0_all.push((k.0, *a, *b));
         }
      }
      for ((k, a), it) in i01.iter_all() {
         for (b,) in it {
            v.ind01_all.push((*k, *a, *b));
         }
      }
      for (a, it) in i1.iter_all() {
         for (k, b) in it {
            v.ind1_all.push((*k, a.0, *b));
         }
      }
      for ((a, b), it) in i12.iter_all() {
         for (k,) in it {
            v.ind12_all.push((*k, *a, *b));
         }
      }
      let _ = (full.len_estimate(), none.len_estimate(), i0.len_estimate(), i01.len_estimate(), i1.len_estimate(), i12.len_estimate());
      v
   }
   fn set3(v: &[(u8, u8, u8)]) -> Rows { v.iter().cloned().collect() }
   fn nodup3(v: &[(u8, u8, u8)]) -> bool { set3(v).len() == v.len() }
   /// exact: the view is exactly `want`; covering: it contains `want` and stays inside `within` (a delta scan may over-approximate
   /// within the closure, which is sound for semi-naive evaluation)
   fn exact(v: &[(u8, u8, u8)], want: &Rows) -> bool { set3(v) == *want && nodup3(v) }
   /// a total view: everything known one iteration ago, nothing that is not known now, no row twice
   fn total3(v: &[(u8, u8, u8)], prev: &Rows, now: &Rows) -> bool { set3(v).is_superset(prev) && set3(v).is_subset(now) && nodup3(v) }
   fn covering(v: &[(u8, u8, u8)], want: &Rows, within: &Rows) -> bool { set3(v).is_superset(want) && set3(v).is_subset(within) }

   /// codes: 0 stop, 1..=18 derive (k, a, b) = ((c-1)/9, ((c-1)%9)/3, (c-1)%3), 19 end of iteration, 20 end of stratum
   pub fn protocol3<const L: usize, const K3: usize>(s: &mut dyn Src, r: &mut Report) {
      let mut ops = vec![];
      let mut stopped = false;
      for _ in 0..L {
         let c = s.byte();
         s.require((c as usize) <= 9 * K3 + 2 && (!stopped || c == 0));
         if c == 0 {
            stopped = true;
         } else {
            ops.push(c);
         }
      }
      if s.rejected() {
         return;
      }
      let (it_end, st_end) = ((9 * K3 + 1) as u8, (9 * K3 + 2) as u8);
      ops.push(st_end);
      r.note(format!("codes (1 + 9k + 3a + b = derive (k, a, b); then end of iteration, end of stratum) = {:?}", ops));
      let mut evs = vec![];
      for &c in &ops {
         if c == st_end {
            evs.extend([it_end, it_end, st_end]);
         } else {
            evs.push(c);
         }
      }
      let mut new = Tern::default();
      let mut delta = Tern::default();
      let mut total = Tern::default();
      let mut to_full_w = ToEqRel2IndFull::<u8, u8>::default();
      let to_full = ToEqRel2IndFull::<u8, u8>::default();
      let mut offered = Rows::new();
      let mut merged = Rows::new();
      let mut new_this_iter = Rows::new();
      for &c in &evs {
         if c == st_end {
            delta = std::mem::take(&mut total);
            new = Tern::default();
            let known = closure3(&merged, K3);
            let d = read3(&delta, K3);
            chk!(r, "ternary_stratum_start_delta_is_everything_known", d.full_contains == known && exact(&d.none_get, &known));
            continue;
         }
         if c < it_end {
            let c = c - 1;
            let row = (c / 9, (c % 9) / 3, c % 3);
            offered.insert(row);
            let in_total = to_full.to_rel_index(&total).contains_key(&row);
            let in_delta = to_full.to_rel_index(&delta).contains_key(&row);
            chk!(r, "ternary_guard_total_or_delta_knows_exactly_the_merged_closure", (in_total || in_delta) == closure3(&merged, K3).contains(&row));
            if !in_total && !in_delta {
               let already = closure3(&new_this_iter, K3).contains(&row);
               let fresh = to_full_w.to_rel_index_write(&mut new).insert_if_not_present(&row, ());
               chk!(r, "ternary_insert_if_not_present_reports_new_information", fresh || already);
               new_this_iter.insert(row);
            }
         } else {
            RelIndexMerge::merge_delta_to_total_new_to_delta(&mut new, &mut delta, &mut total);
            let c_prev = closure3(&merged, K3);
            merged = offered.clone();
            let c_now = closure3(&merged, K3);
            new_this_iter.clear();
            let added: Rows = c_now.difference(&c_prev).cloned().collect();
            let t = read3(&total, K3);
            let d = read3(&delta, K3);
            let n = read3(&new, K3);
            chk!(r, "ternary_total_full_index_is_the_previous_closure", t.full_contains.is_superset(&c_prev) && t.full_contains.is_subset(&c_now) && t.full_get.is_superset(&c_prev) && t.full_get.is_subset(&c_now) && total3(&t.full_all, &c_prev, &c_now));
            chk!(r, "ternary_total_no_index_is_the_previous_closure", total3(&t.none_get, &c_prev, &c_now) && total3(&t.none_all, &c_prev, &c_now));
            chk!(r, "ternary_total_index_0_is_the_previous_closure", total3(&t.ind0_get, &c_prev, &c_now) && total3(&t.ind0_all, &c_prev, &c_now));
            chk!(r, "ternary_total_index_0_1_is_the_previous_closure", total3(&t.ind01_get, &c_prev, &c_now) && total3(&t.ind01_all, &c_prev, &c_now));
            chk!(r, "ternary_total_index_1_is_the_previous_closure", total3(&t.ind1_get, &c_prev, &c_now) && total3(&t.ind1_all, &c_prev, &c_now));
            chk!(r, "ternary_total_index_1_2_is_the_previous_closure", total3(&t.ind12_get, &c_prev, &c_now) && total3(&t.ind12_all, &c_prev, &c_now));
            chk!(r, "ternary_delta_full_index_covers_the_new_rows_within_the_closure",
               d.full_contains.is_superset(&added) && d.full_contains.is_subset(&c_now) && d.full_get.is_superset(&added) && d.full_get.is_subset(&c_now) && covering(&d.full_all, &added, &c_now));
            chk!(r, "ternary_delta_no_index_covers_the_new_rows_within_the_closure", covering(&d.none_get, &added, &c_now) && covering(&d.none_all, &added, &c_now));
            chk!(r, "ternary_delta_index_0_covers_the_new_rows_within_the_closure", covering(&d.ind0_get, &added, &c_now) && covering(&d.ind0_all, &added, &c_now));
            chk!(r, "ternary_delta_index_0_1_covers_the_new_rows_within_the_closure", covering(&d.ind01_get, &added, &c_now) && covering(&d.ind01_all, &added, &c_now));
            chk!(r, "ternary_delta_index_1_covers_the_new_rows_within_the_closure", covering(&d.ind1_get, &added, &c_now) && covering(&d.ind1_all, &added, &c_now));
            chk!(r, "ternary_delta_index_1_2_covers_the_new_rows_within_the_closure", covering(&d.ind12_get, &added, &c_now) && covering(&d.ind12_all, &added, &c_now));
            chk!(r, "ternary_new_is_empty_after_the_merge", n.full_contains.is_empty() && n.full_all.is_empty() && n.none_get.is_empty());
            if !r.failed.is_empty() && r.notes.len() < 3 {
               r.note(format!("after a merge: expected total = {:?}, expected new rows in delta = {:?}", c_prev, added));
               r.note(format!("total views: full {:?} none {:?} [0] {:?} [0,1] {:?} [1] {:?} [1,2] {:?}", t.full_contains, t.none_get, t.ind0_get, t.ind01_get, t.ind1_get, t.ind12_get));
               r.note(format!("delta views: full {:?} none {:?} [0] {:?} [0,1] {:?} [1] {:?} [1,2] {:?} / scans [1] {:?} [1,2] {:?}", d.full_contains, d.none_get, d.ind0_get, d.ind01_get, d.ind1_get, d.ind12_get, d.ind1_all, d.ind12_all));
            }
         }
      }
      // the relation as the next stratum sees it (everything sits in `delta` after the final restart)
      let d = read3(&delta, K3);
      let c_all = closure3(&offered, K3);
      chk!(r, "ternary_fixpoint_is_the_per_key_equivalence_closure", d.full_contains == c_all && exact(&d.none_get, &c_all) && covering(&d.ind0_get, &c_all, &c_all)
         && covering(&d.ind01_get, &c_all, &c_all) && covering(&d.ind1_get, &c_all, &c_all) && covering(&d.ind12_get, &c_all, &c_all));
   }

   // ---------------------------------------------------------------------------------------------------------------
   // the union-find alone, over a larger element domain: index_insert on the common structure is EqRel::add on `combined`
   const D6: usize = 6;
   /// codes: 0 stop, 1..=30 add(a, b) for the ordered pairs a != b over 6 items (which class survives depends on the order);
   /// after every add: contains_key over all 36 pairs, the [0] lookup of every element and count_exact against the closure
   pub fn direct<const L: usize>(s: &mut dyn Src, r: &mut Report) {
      let mut ops = vec![];
      let mut stopped = false;
      for _ in 0..L {
         let c = s.byte();
         s.require(c <= 30 && (!stopped || c == 0));
         if c == 0 {
            stopped = true;
         } else {
            let c = (c - 1) as usize;
            let a = c / 5;
            let mut b = c % 5;
            if b >= a {
               b += 1;
            }
            ops.push((a as u8, b as u8));
         }
      }
      if s.rejected() {
         return;
      }
      r.note(format!("adds = {:?}", ops));
      let mut e = EqRelIndCommon::<u8>::default();
      let to_full = ToEqRelInd0_1::<u8>::default();
      let to_0 = ToEqRelInd0::<u8>::default();
      let mut reach = [[false; D6]; D6];
      for &(a, b) in &ops {
         RelIndexWrite::index_insert(&mut e, (a, b), ());
         let (a, b) = (a as usize, b as usize);
         reach[a][b] = true;
         reach[b][a] = true;
         reach[a][a] = true;
         reach[b][b] = true;
         for k in 0..D6 {
            for i in 0..D6 {
               for j in 0..D6 {
                  if reach[i][k] && reach[k][j] {
                     reach[i][j] = true;
                  }
               }
            }
         }
         let full = to_full.to_rel_index(&e);
         let ind0 = to_0.to_rel_index(&e);
         let mut exact = true;
         let mut rows_ok = true;
         let mut total = 0;
         for x in 0..D6 {
            let mut row: Vec<u8> = ind0.index_get(&(x as u8,)).map(|it| it.map(|(y,)| *y).collect()).unwrap_or_default();
            row.sort();
            let want: Vec<u8> = (0..D6).filter(|&y| reach[x][y]).map(|y| y as u8).collect();
            if row != want {
               rows_ok = false;
            }
            for y in 0..D6 {
               if reach[x][y] {
                  total += 1;
               }
               if full.contains_key(&(x as u8, y as u8)) != reach[x][y] {
                  exact = false;
               }
            }
         }
         chk!(r, "direct_contains_is_the_equivalence_closure", exact);
         chk!(r, "direct_set_of_is_the_class", rows_ok);
         chk!(r, "direct_count_exact_is_the_closure_size", e.count_exact() == total);
      }
   }
}
#[cfg(not(kani))]
pub use imp::{direct, protocol, protocol3};
#[cfg(kani)]
pub fn protocol<const L: usize>(_s: &mut dyn Src, _r: &mut Report) {}
#[cfg(kani)]
pub fn protocol3<const L: usize, const K3: usize>(_s: &mut dyn Src, _r: &mut Report) {}
#[cfg(kani)]
pub fn direct<const L: usize>(_s: &mut dyn Src, _r: &mut Report) {}
