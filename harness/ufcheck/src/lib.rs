//! Contracts for the union-find structures of ascent-byods-rels (property C18).
//!
//! `src/uf.rs` of this crate is NOT written by hand: on every run the driver copies
//! /repo/byods/ascent-byods-rels/src/uf.rs byte for byte and inserts ONE line,
//! `include!("uf_elems_harness.rs");`, before the closing brace of `pub mod elems` (the harness has to live
//! inside that module because `Elems`, `Elem::rank`, `UfPtr` and `UnionFind::union_internal` are private).
//! Nothing is dropped; `#[cfg(test)] mod tests` stays in the file and is compiled out as in a normal build.
//!
//! * Under Kani the harnesses marked `kani` are proved: `elem_union` / `union_by_rank` are loop-free over the
//!   full machine domain (complete); the `*_step` harnesses are the inductive step of the forest invariant over
//!   EVERY state with at most N elements (bounded in the number of elements, unbounded in the history).
//! * Natively the same harnesses replay counterexamples and enumerate small domains; the history harnesses
//!   (UnionFind through its HashMap front end, TrRelUnionFind) are native only and BOUNDED.
#![allow(clippy::all)]
#![allow(dead_code, private_interfaces)]

pub trait Src {
   fn byte(&mut self) -> u8;
   fn require(&mut self, cond: bool);
   /// native: a requirement was not met (the harness returns at once); Kani: never (assume)
   fn rejected(&self) -> bool;
}
pub struct VecSrc {
   pub bytes: Vec<u8>,
   pub pos: usize,
   pub rejected: bool,
}
impl VecSrc {
   pub fn new(bytes: Vec<u8>) -> Self { VecSrc { bytes, pos: 0, rejected: false } }
}
impl Src for VecSrc {
   fn byte(&mut self) -> u8 {
      let b = self.bytes.get(self.pos).copied().unwrap_or(0);
      self.pos += 1;
      b
   }
   fn require(&mut self, cond: bool) {
      if !cond {
         self.rejected = true;
      }
   }
   fn rejected(&self) -> bool { self.rejected }
}
#[cfg(kani)]
pub struct KaniSrc;
#[cfg(kani)]
impl Src for KaniSrc {
   fn byte(&mut self) -> u8 { kani::any() }
   fn require(&mut self, cond: bool) { kani::assume(cond) }
   fn rejected(&self) -> bool { false }
}
pub struct Report {
   pub failed: Vec<&'static str>,
   pub notes: Vec<String>,
}
impl Report {
   pub fn new() -> Self { Report { failed: vec![], notes: vec![] } }
   #[cfg(not(kani))]
   pub fn note(&mut self, s: String) {
      if self.notes.len() < 8 {
         self.notes.push(s);
      }
   }
   pub fn check(&mut self, name: &'static str, ok: bool) {
      if !ok && !self.failed.contains(&name) {
         self.failed.push(name);
      }
   }
}
#[cfg(kani)]
#[macro_export]
macro_rules! chk {
   ($r:expr, $name:literal, $cond:expr $(,)?) => {{
      let _ = &$r;
      kani::assert($cond, $name);
   }};
}
#[cfg(not(kani))]
#[macro_export]
macro_rules! chk {
   ($r:expr, $name:literal, $cond:expr $(,)?) => {
      $r.check($name, $cond)
   };
}

/// the real file, copied verbatim + one include! line (see the crate documentation)
pub mod uf;
mod trrel;
mod eqrel;
mod trrel_prov;
mod trrel_uf_prov;

pub type Runner = fn(&mut dyn Src, &mut Report);

macro_rules! registry {
   (kani { $( $name:ident [$unwind:expr] => |$s:ident, $r:ident| $body:block ),* $(,)? }
    native { $( $nname:ident => |$ns:ident, $nr:ident| $nbody:block ),* $(,)? }) => {
      pub mod run {
         use super::*;
         $( pub fn $name($s: &mut dyn Src, $r: &mut Report) $body )*
         $( pub fn $nname($ns: &mut dyn Src, $nr: &mut Report) $nbody )*
      }
      pub fn registry() -> Vec<(&'static str, Runner, bool)> {
         vec![ $( (stringify!($name), run::$name as Runner, true), )* $( (stringify!($nname), run::$nname as Runner, false), )* ]
      }
      #[cfg(kani)]
      mod proofs {
         use super::*;
         $(
            #[kani::proof]
            #[kani::unwind($unwind)]
            fn $name() {
               let mut s = KaniSrc;
               let mut r = Report::new();
               run::$name(&mut s, &mut r);
            }
         )*
      }
   };
}

use uf::elems::verif_h as h;

registry! {
kani {
   elem_union [2] => |s, r| { h::elem_union_contract(s, r) },
   union_by_rank [2] => |s, r| { h::union_by_rank_contract(s, r) },
   find_step_n1 [4] => |s, r| { h::step::<1>(0, true, s, r) },
   find_step_n2 [5] => |s, r| { h::step::<2>(0, true, s, r) },
   find_step_n3 [6] => |s, r| { h::step::<3>(0, true, s, r) },
   find_step_n4 [7] => |s, r| { h::step::<4>(0, true, s, r) },
   union_internal_step_n1 [4] => |s, r| { h::step::<1>(1, true, s, r) },
   union_internal_step_n2 [5] => |s, r| { h::step::<2>(1, true, s, r) },
   union_internal_step_n3 [6] => |s, r| { h::step::<3>(1, true, s, r) },
   union_internal_step_n4 [7] => |s, r| { h::step::<4>(1, true, s, r) },
   find_step_n6 [9] => |s, r| { h::step::<6>(0, true, s, r) },
   class_iter_step_n6 [9] => |s, r| { h::step::<6>(4, true, s, r) },
   push_step_n5 [8] => |s, r| { h::step::<5>(3, true, s, r) },
   find_step_n5 [8] => |s, r| { h::step::<5>(0, true, s, r) },
   union_internal_step_n5 [8] => |s, r| { h::step::<5>(1, true, s, r) },
   union_step_n4 [7] => |s, r| { h::step::<4>(2, true, s, r) },
   push_step_n4 [7] => |s, r| { h::step::<4>(3, true, s, r) },
   class_iter_step_n5 [8] => |s, r| { h::step::<5>(4, true, s, r) },
   union_step_n2 [5] => |s, r| { h::step::<2>(2, true, s, r) },
   union_step_n3 [6] => |s, r| { h::step::<3>(2, true, s, r) },
   push_step_n1 [4] => |s, r| { h::step::<1>(3, true, s, r) },
   push_step_n2 [5] => |s, r| { h::step::<2>(3, true, s, r) },
   push_step_n3 [6] => |s, r| { h::step::<3>(3, true, s, r) },
   class_iter_step_n1 [4] => |s, r| { h::step::<1>(4, true, s, r) },
   class_iter_step_n2 [5] => |s, r| { h::step::<2>(4, true, s, r) },
   class_iter_step_n3 [6] => |s, r| { h::step::<3>(4, true, s, r) },
   class_iter_step_n4 [7] => |s, r| { h::step::<4>(4, true, s, r) },
   vacuity_canary_n3 [6] => |s, r| { h::step::<3>(9, true, s, r) },
}
native {
   find_step_le3 => |s, r| { h::step::<3>(0, false, s, r) },
   union_internal_step_le3 => |s, r| { h::step::<3>(1, false, s, r) },
   union_step_le3 => |s, r| { h::step::<3>(2, false, s, r) },
   push_step_le3 => |s, r| { h::step::<3>(3, false, s, r) },
   class_iter_step_le3 => |s, r| { h::step::<3>(4, false, s, r) },
   uf_state_sweep => |s, r| { h::sweep(s, r) },
   uf_history_le4 => |s, r| { h::uf_history::<4>(s, r) },
   uf_history_le5 => |s, r| { h::uf_history::<5>(s, r) },
   uf_history_le6 => |s, r| { h::uf_history::<6>(s, r) },
   eqrel_protocol_le4 => |s, r| { eqrel::protocol::<4>(s, r) },
   eqrel_protocol_le5 => |s, r| { eqrel::protocol::<5>(s, r) },
   eqrel_protocol_le6 => |s, r| { eqrel::protocol::<6>(s, r) },
   eqrel_direct_le5 => |s, r| { eqrel::direct::<5>(s, r) },
   eqrel_direct_le6 => |s, r| { eqrel::direct::<6>(s, r) },
   eqrel_ternary_protocol_le3 => |s, r| { eqrel::protocol3::<3, 2>(s, r) },
   eqrel_ternary_protocol_le4 => |s, r| { eqrel::protocol3::<4, 2>(s, r) },
   eqrel_ternary_protocol_le5 => |s, r| { eqrel::protocol3::<5, 2>(s, r) },
   eqrel_ternary_protocol_le6 => |s, r| { eqrel::protocol3::<6, 2>(s, r) },
   trrel_protocol_le6 => |s, r| { trrel_prov::protocol2::<6>(s, r) },
   trrel_ternary_protocol_le6 => |s, r| { trrel_prov::protocol3::<6, 2>(s, r) },
   trrel_uf_protocol_le5 => |s, r| { trrel_uf_prov::uf_protocol2::<5>(s, r) },
   trrel_uf_protocol_le6 => |s, r| { trrel_uf_prov::uf_protocol2::<6>(s, r) },
   trrel_uf_ternary_protocol_le5 => |s, r| { trrel_uf_prov::uf_protocol3::<5, 2>(s, r) },
   trrel_uf_ternary_protocol_k3_le4 => |s, r| { trrel_uf_prov::uf_protocol3::<4, 3>(s, r) },
   trrel_uf_ternary_protocol_k3_le5 => |s, r| { trrel_uf_prov::uf_protocol3::<5, 3>(s, r) },
   trrel_uf_protocol_le4 => |s, r| { trrel_uf_prov::uf_protocol2::<4>(s, r) },
   trrel_uf_ternary_protocol_le4 => |s, r| { trrel_uf_prov::uf_protocol3::<4, 2>(s, r) },
   eqrel_ternary_protocol_k3_le4 => |s, r| { eqrel::protocol3::<4, 3>(s, r) },
   eqrel_ternary_protocol_k3_le5 => |s, r| { eqrel::protocol3::<5, 3>(s, r) },
   trrel_ternary_protocol_k3_le4 => |s, r| { trrel_prov::protocol3::<4, 3>(s, r) },
   trrel_ternary_protocol_k3_le5 => |s, r| { trrel_prov::protocol3::<5, 3>(s, r) },
   binrel_sweep => |s, r| { trrel_prov::binrel_sweep(s, r) },
   trrel_protocol_le4 => |s, r| { trrel_prov::protocol2::<4>(s, r) },
   trrel_protocol_le5 => |s, r| { trrel_prov::protocol2::<5>(s, r) },
   trrel_ternary_protocol_le3 => |s, r| { trrel_prov::protocol3::<3, 2>(s, r) },
   trrel_ternary_protocol_le4 => |s, r| { trrel_prov::protocol3::<4, 2>(s, r) },
   trrel_ternary_protocol_le5 => |s, r| { trrel_prov::protocol3::<5, 2>(s, r) },
   trrel_uf_history_le4 => |s, r| { trrel::history::<4>(s, r) },
   trrel_uf_history_le5 => |s, r| { trrel::history::<5>(s, r) },
   trrel_uf_history_le6 => |s, r| { trrel::history::<6>(s, r) },
}
}
