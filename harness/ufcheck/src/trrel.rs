//! BOUNDED (native only): TrRelUnionFind against the reflexive transitive closure of the added pairs.
//! hashbrown maps of hash sets are outside Kani's reach (cost) and Verus has no specification for them, so this is the
//! executable form of the contract, enumerated over every add-history of a stated length over 4 items.
use crate::{chk, Report, Src};

#[cfg(not(kani))]
pub fn history<const L: usize>(s: &mut dyn Src, r: &mut Report) {
   use ascent_byods_rels::trrel_union_find::TrRelUnionFind;
   const D: usize = 4;
   // one code per add: 0 = stop (only zeros may follow), 1 + 4*a + b = add(a, b)
   let mut ops = vec![];
   let mut stopped = false;
   for _ in 0..L {
      let c = s.byte();
      s.require(c <= 16 && (!stopped || c == 0));
      if c == 0 {
         stopped = true;
      } else {
         ops.push(((c - 1) / 4, (c - 1) % 4));
      }
   }
   if s.rejected() {
      return;
   }
   r.note(format!("adds = {:?}", ops));
   let mut t: TrRelUnionFind<u8> = TrRelUnionFind::default();
   let mut reach = [[false; D]; D];
   let mut present = [false; D];
   for &(a, b) in &ops {
      let (a_, b_) = (a as usize, b as usize);
      let had = reach[a_][b_];
      let changed = t.add(a, b);
      present[a_] = true;
      present[b_] = true;
      reach[a_][a_] = true;
      reach[b_][b_] = true;
      reach[a_][b_] = true;
      for k in 0..D {
         for i in 0..D {
            for j in 0..D {
               if reach[i][k] && reach[k][j] {
                  reach[i][j] = true;
               }
            }
         }
      }
      chk!(r, "add_returns_false_only_for_pairs_already_related", changed || had);
      t.assert_disjoint_invariant();
      t.assert_set_connections_dominant_sets();
      let mut exact = true;
      let mut total = 0usize;
      for x in 0..D {
         for y in 0..D {
            if reach[x][y] {
               total += 1;
            }
            if t.contains(&(x as u8), &(y as u8)) != reach[x][y] {
               exact = false;
            }
         }
      }
      chk!(r, "contains_is_the_reflexive_transitive_closure", exact);
      chk!(r, "count_exact_is_the_closure_size", t.count_exact() == total);
      chk!(r, "is_empty_exactly_without_elements", t.is_empty() == !present.iter().any(|p| *p));
      let mut all: Vec<(u8, u8)> = t.iter_all().map(|(x, y)| (*x, *y)).collect();
      all.sort();
      let mut want: Vec<(u8, u8)> = vec![];
      for x in 0..D {
         for y in 0..D {
            if reach[x][y] {
               want.push((x as u8, y as u8));
            }
         }
      }
      chk!(r, "iter_all_yields_each_closure_pair_once", all == want);
      let mut sets_ok = true;
      for x in 0..D {
         let mut so: Option<Vec<u8>> = t.set_of(&(x as u8)).map(|it| it.cloned().collect());
         let mut rso: Option<Vec<u8>> = t.rev_set_of(&(x as u8)).map(|it| it.cloned().collect());
         if let Some(v) = so.as_mut() {
            v.sort();
         }
         if let Some(v) = rso.as_mut() {
            v.sort();
         }
         let want_so: Option<Vec<u8>> = if present[x] { Some((0..D).filter(|&y| reach[x][y]).map(|y| y as u8).collect()) } else { None };
         let want_rso: Option<Vec<u8>> = if present[x] { Some((0..D).filter(|&y| reach[y][x]).map(|y| y as u8).collect()) } else { None };
         if so != want_so || rso != want_rso {
            sets_ok = false;
         }
      }
      chk!(r, "set_of_and_rev_set_of_are_the_closure_rows_and_columns", sets_ok);
   }
}
#[cfg(kani)]
pub fn history<const L: usize>(_s: &mut dyn Src, _r: &mut Report) {}
