// Included by the driver at the end of `pub mod elems` of the verbatim copy of uf.rs (see lib.rs).
// Everything here is harness code: it reads and builds the private state of the real types and calls the real functions.
pub mod verif_h {
   use super::super::UnionFind;
   use super::*;
   use crate::{chk, Report, Src};

   fn word(s: &mut dyn Src) -> usize {
      let b = [s.byte(), s.byte(), s.byte(), s.byte(), s.byte(), s.byte(), s.byte(), s.byte()];
      usize::from_le_bytes(b)
   }
   fn id(i: usize) -> Id { Id(UfPtr(i as UfPtrType)) }
   fn ix(i: Id) -> usize { i.0.to_usize() }
   fn mk(next: usize, parent: usize, rank: usize, value: u8) -> Elem<u8> {
      Elem { next: Cell::new(id(next)), parent: Cell::new(id(parent)), rank: Cell::new(Rank(UfPtr(rank as UfPtrType))), value }
   }
   fn rank_of(e: &Elem<u8>) -> usize { e.rank.get().0.to_usize() }

   // ---- Elem::union, Elem::union_by_rank: loop-free, every machine value of next / parent / rank -----------------

   /// requires (from the debug assertions and the rank bound of the invariant): distinct parents, self.rank >= other.rank,
   /// self.rank + 1 does not overflow.
   /// ensures: the two circular lists are spliced (next pointers swapped), other hangs under self's parent id, self keeps its
   /// parent, no rank decreases and self's rank stays >= other's (what `ok()` demands of a parent), values unchanged.
   /// (HOW MUCH the root's rank grows is deliberately not fixed: +1 always, +1 on ties, or size-based are all union by rank.)
   pub fn elem_union_contract(s: &mut dyn Src, r: &mut Report) {
      let (an, ap, ar) = (word(s), word(s), word(s));
      let (bn, bp, br) = (word(s), word(s), word(s));
      s.require(ap != bp);
      s.require(ar >= br);
      s.require(ar < UfPtrType::MAX as usize);
      if s.rejected() {
         return;
      }
      let a = mk(an, ap, ar, 7);
      let b = mk(bn, bp, br, 9);
      a.union(&b);
      chk!(r, "union_splices_next_of_root", ix(a.next.get()) == bn);
      chk!(r, "union_splices_next_of_child", ix(b.next.get()) == an);
      chk!(r, "union_child_points_to_root", ix(b.parent.get()) == ap);
      chk!(r, "union_root_parent_unchanged", ix(a.parent.get()) == ap);
      chk!(r, "union_ranks_do_not_decrease", rank_of(&a) >= ar && rank_of(&b) >= br);
      chk!(r, "union_rank_order_kept", rank_of(&a) >= rank_of(&b));
      chk!(r, "union_values_unchanged", a.value == 7 && b.value == 9);
   }

   /// ensures: an element whose rank is >= the other's becomes the root (either one on ties), its parent id is returned, both
   /// hang under it, the lists are spliced, no rank decreases and the root's rank is >= the child's.
   pub fn union_by_rank_contract(s: &mut dyn Src, r: &mut Report) {
      let (an, ap, ar) = (word(s), word(s), word(s));
      let (bn, bp, br) = (word(s), word(s), word(s));
      s.require(ap != bp);
      s.require(ar < UfPtrType::MAX as usize && br < UfPtrType::MAX as usize);
      if s.rejected() {
         return;
      }
      let a = mk(an, ap, ar, 7);
      let b = mk(bn, bp, br, 9);
      let res = a.union_by_rank(&b);
      let a_wins = ix(res) == ap;
      chk!(r, "union_by_rank_returns_one_of_the_roots", ix(res) == ap || ix(res) == bp);
      chk!(r, "union_by_rank_winner_had_no_smaller_rank", if a_wins { ar >= br } else { br >= ar });
      chk!(r, "union_by_rank_both_hang_under_winner", ix(a.parent.get()) == ix(res) && ix(b.parent.get()) == ix(res));
      chk!(r, "union_by_rank_splices_lists", ix(a.next.get()) == bn && ix(b.next.get()) == an);
      chk!(r, "union_by_rank_ranks_do_not_decrease", rank_of(&a) >= ar && rank_of(&b) >= br);
      chk!(r, "union_by_rank_child_rank_not_above_root", if a_wins { rank_of(&a) >= rank_of(&b) } else { rank_of(&b) >= rank_of(&a) });
   }

   // ---- the forest invariant and its inductive step over all states of at most N elements --------------------------

   const M: usize = 8;
   const NONE: usize = usize::MAX;
   /// plain snapshot of the (parent, next, rank) cells of the first n elements
   #[derive(Clone, Copy, Debug)]
   pub struct St {
      n: usize,
      p: [usize; M],
      x: [usize; M],
      k: [usize; M],
   }
   impl St {
      fn describe(&self) -> String {
         format!("n = {}, (parent, next, rank) = {:?}", self.n, (0..self.n).map(|i| (self.p[i], self.x[i], self.k[i])).collect::<Vec<_>>())
      }
   }
   fn build(st: &St) -> Elems<u8> {
      let mut v: Vec<Elem<u8>> = Vec::with_capacity(M);
      let mut i = 0;
      while i < st.n {
         v.push(mk(st.x[i], st.p[i], st.k[i], 10 + i as u8));
         i += 1;
      }
      Elems(v)
   }
   fn snapshot(e: &Elems<u8>) -> St {
      let mut st = St { n: e.0.len(), p: [0; M], x: [0; M], k: [0; M] };
      let mut i = 0;
      while i < st.n && i < M {
         st.p[i] = ix(e.0[i].parent.get());
         st.x[i] = ix(e.0[i].next.get());
         st.k[i] = rank_of(&e.0[i]);
         i += 1;
      }
      st
   }
   /// Kani: exactly N elements, every (parent, next, rank) byte triple; native: n <= N given by a leading byte, unused slots zero
   fn gen_state<const N: usize>(s: &mut dyn Src, exact: bool) -> Option<St> {
      let n = if exact { N } else { s.byte() as usize };
      s.require(n >= 1 && n <= N);
      if s.rejected() {
         return None;
      }
      let mut st = St { n, p: [0; M], x: [0; M], k: [0; M] };
      let mut i = 0;
      while i < N {
         let p = s.byte() as usize;
         let x = s.byte() as usize;
         let k = s.byte() as usize;
         if i < n {
            s.require(p < n && x < n && k <= n);
            st.p[i] = p;
            st.x[i] = x;
            st.k[i] = k;
         } else {
            s.require(p == 0 && x == 0 && k == 0);
         }
         i += 1;
      }
      if s.rejected() {
         return None;
      }
      Some(st)
   }
   /// the root reached from i by at most n parent steps (NONE: out of range or a cycle)
   fn root_of(st: &St, i: usize) -> usize {
      let mut c = i;
      let mut k = 0;
      while k <= st.n {
         if c >= st.n {
            return NONE;
         }
         let p = st.p[c];
         if p == c {
            return c;
         }
         c = p;
         k += 1;
      }
      NONE
   }
   fn roots(st: &St) -> [usize; M] {
      let mut v = [NONE; M];
      let mut i = 0;
      while i < st.n {
         v[i] = root_of(st, i);
         i += 1;
      }
      v
   }
   /// INV: parents form a forest (no cycle besides the self loop of a root), ranks do not decrease towards the root, the rank of
   /// a root is below the size of its class (so `rank + 1` cannot overflow), and the `next` pointers are a permutation whose
   /// cycles are exactly the classes of the forest.
   fn inv(st: &St) -> bool {
      let n = st.n;
      if n > M {
         return false;
      }
      let rt = roots(st);
      let mut i = 0;
      while i < n {
         let p = st.p[i];
         let x = st.x[i];
         if p >= n || x >= n {
            return false;
         }
         let ri = rt[i];
         if ri == NONE {
            return false;
         }
         if p != i && st.k[i] > st.k[p] {
            return false;
         }
         // next stays inside the class
         if rt[x] != ri {
            return false;
         }
         // the next-cycle through i has exactly the size of the class of i
         let mut class_size = 0;
         let mut j = 0;
         while j < n {
            if rt[j] == ri {
               class_size += 1;
            }
            j += 1;
         }
         let mut c = x;
         let mut len = 1;
         let mut k = 0;
         while k < n && c != i {
            c = st.x[c];
            len += 1;
            k += 1;
         }
         if c != i || len != class_size {
            return false;
         }
         if p == i && st.k[i] >= class_size {
            return false;
         }
         i += 1;
      }
      true
   }
   fn values_intact(e: &Elems<u8>) -> bool {
      let mut i = 0;
      while i < e.0.len() {
         if e.0[i].value != 10 + i as u8 {
            return false;
         }
         i += 1;
      }
      true
   }

   fn same_partition(a: &[usize; M], b: &[usize; M], n: usize) -> bool {
      let mut i = 0;
      while i < n {
         let mut j = 0;
         while j < n {
            if (a[i] == a[j]) != (b[i] == b[j]) {
               return false;
            }
            j += 1;
         }
         i += 1;
      }
      true
   }

   /// requires INV and an existing id.  ensures: find returns the root of id's class (and the element stored there), INV still
   /// holds, the partition into classes is unchanged (path halving is invisible), values and length unchanged.
   fn find_contract(st0: &St, q: usize, r: &mut Report) {
      let e = build(st0);
      let rt0 = roots(st0);
      let res = unsafe { e.find(id(q)) };
      let st1 = snapshot(&e);
      let rt1 = roots(&st1);
      chk!(r, "find_keeps_invariant", inv(&st1));
      chk!(r, "find_returns_the_root", ix(res.id) == rt1[q] && rt0[ix(res.id) % M] == rt0[q]);
      chk!(r, "find_returns_the_root_element", ix(res.id) < st0.n && std::ptr::eq(res.elem, &e.0[ix(res.id)]));
      chk!(r, "find_keeps_the_partition", same_partition(&rt1, &rt0, st0.n));
      chk!(r, "find_keeps_values", values_intact(&e));
      chk!(r, "find_keeps_len", e.len() == st0.n);
   }

   /// requires INV and two existing ids.  ensures (UnionFind::union_internal / union): the result is the common root of x and
   /// y afterwards; INV holds; two elements are in the same class afterwards exactly when
   /// they were before or one was with x and the other with y; values and length unchanged.
   fn union_contract(st0: &St, x: usize, y: usize, via_pub: bool, r: &mut Report) {
      let n = st0.n;
      let rt0 = roots(st0);
      let uf: UnionFind<u8> = UnionFind { elems: build(st0), items: Default::default() };
      let res = if via_pub { unsafe { uf.union(id(x), id(y)) } } else { unsafe { uf.union_internal(id(x), id(y)) }.id };
      let e = &uf.elems;
      let st1 = snapshot(e);
      chk!(r, "union_keeps_invariant", inv(&st1));
      let rt1 = roots(&st1);
      chk!(r, "union_result_is_root_of_both", rt1[x] == ix(res) && rt1[y] == ix(res));
      let mut exact = true;
      let mut i = 0;
      while i < n {
         let mut j = 0;
         while j < n {
            let before = rt0[i] == rt0[j];
            let bridged = (rt0[i] == rt0[x] && rt0[j] == rt0[y]) || (rt0[i] == rt0[y] && rt0[j] == rt0[x]);
            let after = rt1[i] == rt1[j];
            if after != (before || bridged) {
               exact = false;
            }
            j += 1;
         }
         i += 1;
      }
      chk!(r, "union_merges_exactly_the_two_classes", exact);
      chk!(r, "union_keeps_values", values_intact(e));
      chk!(r, "union_keeps_len", e.len() == n);
   }

   /// requires INV.  ensures (Elems::push): the new id is the old length, the new element is a singleton class, INV holds and
   /// the partition of the old elements is unchanged.
   fn push_contract(st0: &St, r: &mut Report) {
      let mut e = build(st0);
      let n = st0.n;
      let nid = e.push(10 + n as u8);
      let st1 = snapshot(&e);
      chk!(r, "push_returns_old_len", ix(nid) == n && e.len() == n + 1);
      chk!(r, "push_keeps_invariant", inv(&st1));
      let rt0 = roots(st0);
      let rt1 = roots(&st1);
      let mut alone = rt1[n] == n;
      let mut i = 0;
      while i < n {
         if rt1[i] == n {
            alone = false;
         }
         i += 1;
      }
      chk!(r, "push_new_element_is_its_own_class", alone);
      chk!(r, "push_keeps_the_old_partition", same_partition(&rt1, &rt0, n));
      chk!(r, "push_keeps_values", values_intact(&e));
   }

   /// requires INV.  ensures (Class iterator behind iter_class / iter_class_unchecked): starting anywhere, the iterator ends
   /// and yields every OTHER member of the class exactly once, with the element stored under the yielded id.
   fn class_iter_contract(st0: &St, q: usize, r: &mut Report) {
      let e = build(st0);
      let n = st0.n;
      let rt = roots(st0);
      let mut seen = [0u8; M];
      let mut steps = 0;
      let mut ok_elem = true;
      let mut it = unsafe { e.iter_class_unchecked(id(q)) };
      while steps <= n {
         match it.next() {
            None => break,
            Some((i, el)) => {
               if ix(i) < n {
                  seen[ix(i)] += 1;
                  if !std::ptr::eq(el, &e.0[ix(i)]) {
                     ok_elem = false;
                  }
               } else {
                  ok_elem = false;
               }
            },
         }
         steps += 1;
      }
      chk!(r, "class_iter_terminates", steps < n);
      let mut exact = true;
      let mut i = 0;
      while i < n {
         let want = if i != q && rt[i] == rt[q] { 1 } else { 0 };
         if seen[i] != want {
            exact = false;
         }
         i += 1;
      }
      chk!(r, "class_iter_yields_each_other_member_once", exact);
      chk!(r, "class_iter_yields_the_stored_elements", ok_elem);
      chk!(r, "class_iter_checked_constructor_rejects_unknown_ids", e.iter_class(id(n)).is_none() && e.iter_class(id(q)).is_some());
   }

   /// which: 0 find, 1 union_internal, 2 union, 3 push, 4 class iterator, other: vacuity canary
   fn dispatch(which: u8, st: &St, a: usize, b: usize, r: &mut Report) {
      match which {
         0 => find_contract(st, a, r),
         1 => union_contract(st, a, b, false, r),
         2 => union_contract(st, a, b, true, r),
         3 => push_contract(st, r),
         4 => class_iter_contract(st, a, r),
         // vacuity guard: reachable exactly when some state satisfies the precondition; the driver requires this to FAIL
         _ => chk!(r, "vacuity_canary_must_fail", st.n == 0),
      }
   }

   /// one state from bytes (Kani: exactly N elements; native: n <= N) and one operation
   pub fn step<const N: usize>(which: u8, exact: bool, s: &mut dyn Src, r: &mut Report) {
      let st = match gen_state::<N>(s, exact) {
         Some(st) => st,
         None => return,
      };
      let a = s.byte() as usize;
      let b = s.byte() as usize;
      s.require(a < st.n && b < st.n);
      if which == 0 || which == 4 {
         s.require(b == 0);
      }
      if which == 3 || which > 4 {
         s.require(a == 0 && b == 0);
      }
      if s.rejected() {
         return;
      }
      s.require(inv(&st));
      if s.rejected() {
         return;
      }
      #[cfg(not(kani))]
      r.note(format!("state {}, arguments ({}, {})", st.describe(), a, b));
      dispatch(which, &st, a, b, r);
   }

   /// BOUNDED native sweep: EVERY state of exactly n elements that satisfies INV (n = the input byte) x every argument of
   /// every operation; states are generated by pruned enumeration of (parent, next, rank) instead of byte vectors.
   #[cfg(not(kani))]
   pub fn sweep(s: &mut dyn Src, r: &mut Report) {
      let n = s.byte() as usize;
      s.require(n >= 1 && n <= 6);
      if s.rejected() {
         return;
      }
      let mut st = St { n, p: [0; M], x: [0; M], k: [0; M] };
      let mut states = 0u64;
      let mut cases = 0u64;
      sweep_parent(&mut st, 0, r, &mut states, &mut cases);
      r.note(format!("INV states of exactly {} elements: {}, contract evaluations: {}", n, states, cases));
   }
   #[cfg(kani)]
   pub fn sweep(_s: &mut dyn Src, _r: &mut Report) {}
   #[cfg(not(kani))]
   fn sweep_parent(st: &mut St, i: usize, r: &mut Report, states: &mut u64, cases: &mut u64) {
      if i == st.n {
         // forest?
         for j in 0..st.n {
            if root_of(st, j) == NONE {
               return;
            }
         }
         sweep_next(st, 0, r, states, cases);
         return;
      }
      for p in 0..st.n {
         st.p[i] = p;
         sweep_parent(st, i + 1, r, states, cases);
      }
   }
   #[cfg(not(kani))]
   fn sweep_next(st: &mut St, i: usize, r: &mut Report, states: &mut u64, cases: &mut u64) {
      if i == st.n {
         sweep_rank(st, 0, r, states, cases);
         return;
      }
      let rt = roots(st);
      for x in 0..st.n {
         // next stays in the class and is injective so far
         if rt[x] != rt[i] || (0..i).any(|j| st.x[j] == x) {
            continue;
         }
         st.x[i] = x;
         sweep_next(st, i + 1, r, states, cases);
      }
   }
   #[cfg(not(kani))]
   fn sweep_rank(st: &mut St, i: usize, r: &mut Report, states: &mut u64, cases: &mut u64) {
      if i == st.n {
         if !inv(st) {
            return;
         }
         *states += 1;
         let before = r.failed.len();
         for a in 0..st.n {
            dispatch(0, st, a, 0, r);
            dispatch(4, st, a, 0, r);
            for b in 0..st.n {
               dispatch(1, st, a, b, r);
               dispatch(2, st, a, b, r);
               *cases += 2;
            }
            *cases += 2;
         }
         dispatch(3, st, 0, 0, r);
         *cases += 1;
         if r.failed.len() > before {
            r.note(format!("first state failing {:?}: {}", &r.failed[before..], st.describe()));
         }
         return;
      }
      for k in 0..st.n {
         st.k[i] = k;
         sweep_rank(st, i + 1, r, states, cases);
      }
   }

   // ---- BOUNDED: histories through the HashMap front end (add / find_item / union_add / find / len / ok) -----------

   /// L operation codes over items 0..2: 0 = stop (only zeros may follow), 1-3 add(a), 4-6 find_item(a), 7-15 union_add(a, b),
   /// 16-24 union_add_clone(a, b); after every operation the answers are compared with a reference partition.
   #[cfg(not(kani))]
   pub fn uf_history<const L: usize>(s: &mut dyn Src, r: &mut Report) {
      const D: u8 = 3;
      let mut ops = vec![];
      let mut stopped = false;
      for _ in 0..L {
         let c = s.byte();
         s.require(c <= 24 && (!stopped || c == 0));
         match c {
            0 => stopped = true,
            1..=3 => ops.push((0u8, c - 1, 0u8)),
            4..=6 => ops.push((1, c - 4, 0)),
            7..=15 => ops.push((2, (c - 7) / 3, (c - 7) % 3)),
            _ => ops.push((3, (c.wrapping_sub(16)) / 3, (c.wrapping_sub(16)) % 3)),
         }
      }
      if s.rejected() {
         return;
      }
      r.note(format!("ops (0=add,1=find_item,2=union_add,3=union_add_clone) = {:?}", ops));
      let mut uf: UnionFind<u8> = UnionFind::default();
      // reference: class label per item (None = absent)
      let mut lab: [Option<u8>; 3] = [None; 3];
      let mut count = 0usize;
      for &(k, a, b) in &ops {
         match k {
            0 => {
               let (new, i) = uf.add(a);
               chk!(r, "add_reports_new_exactly_for_absent_items", new == lab[a as usize].is_none());
               if lab[a as usize].is_none() {
                  lab[a as usize] = Some(a);
                  count += 1;
               }
               chk!(r, "add_returns_an_id_of_the_items_class", uf.find_item(&a) == Some(unsafe { uf.find(i) }));
            },
            1 => {
               let f = uf.find_item(&a);
               chk!(r, "find_item_is_some_exactly_for_present_items", f.is_some() == lab[a as usize].is_some());
            },
            _ => {
               for z in [a, b] {
                  if lab[z as usize].is_none() {
                     lab[z as usize] = Some(z);
                     count += 1;
                  }
               }
               let (la, lb) = (lab[a as usize], lab[b as usize]);
               for z in 0..D as usize {
                  if lab[z] == lb {
                     lab[z] = la;
                  }
               }
               let i = if k == 2 { uf.union_add(a, b) } else { uf.union_add_clone(&a, &b) };
               let ri = unsafe { uf.find(i) };
               chk!(r, "union_add_returns_an_id_of_the_common_class", uf.find_item(&a) == Some(ri) && uf.find_item(&b) == Some(ri));
            },
         }
         chk!(r, "len_counts_distinct_items", uf.len() == count && uf.is_empty() == (count == 0));
         chk!(r, "internal_consistency_ok", uf.ok());
         let mut same = true;
         for x in 0..D {
            for y in 0..D {
               let (fx, fy) = (uf.find_item(&x), uf.find_item(&y));
               let want = lab[x as usize].is_some() && lab[x as usize] == lab[y as usize];
               let got = fx.is_some() && fx == fy;
               if want != got {
                  same = false;
               }
               if let Some(i) = fx {
                  if unsafe { uf.find(i) } != i {
                     same = false;
                  }
               }
            }
         }
         chk!(r, "same_class_exactly_when_connected_by_unions", same);
      }
   }
   #[cfg(kani)]
   pub fn uf_history<const L: usize>(_s: &mut dyn Src, _r: &mut Report) {}
}
