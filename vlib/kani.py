"""Kani / native harness crate handling: instantiate a harness crate against $VERIF_REPO, run
harnesses in parallel, parse per-harness results and concrete-playback byte vectors, replay natively."""
import hashlib
import os
import re
import shutil
import threading
import time
from concurrent.futures import ThreadPoolExecutor

from .common import VERIF, REPO, WORK, run, Inconclusive


def instantiate(crate_name):
    """Copy /verif/harness/<crate_name> into .work, pointing its path deps at REPO."""
    src = os.path.join(VERIF, 'harness', crate_name)
    tag = hashlib.sha256(REPO.encode()).hexdigest()[:8]
    dst = os.path.join(WORK, '%s-%s' % (crate_name, tag))
    os.makedirs(dst, exist_ok=True)
    # sources are always refreshed; target dirs are kept for incremental builds
    for d in ('src',):
        if os.path.exists(os.path.join(dst, d)):
            shutil.rmtree(os.path.join(dst, d))
        shutil.copytree(os.path.join(src, d), os.path.join(dst, d))
    shutil.copy(os.path.join(VERIF, 'harness', 'common', 'runner.rs'), os.path.join(dst, 'src', 'runner.rs'))
    tmpl = open(os.path.join(src, 'Cargo.toml.in')).read().replace('@REPO@', REPO)
    with open(os.path.join(dst, 'Cargo.toml'), 'w') as f:
        f.write(tmpl)
    lock = os.path.join(REPO, 'Cargo.lock')
    if not os.path.exists(os.path.join(dst, 'Cargo.lock')) and os.path.exists(lock):
        shutil.copy(lock, os.path.join(dst, 'Cargo.lock'))
    return dst


def instantiate_plain(crate_name):
    """A harness crate without /repo path dependencies and without the shared runner."""
    src = os.path.join(VERIF, 'harness', crate_name)
    tag = hashlib.sha256(REPO.encode()).hexdigest()[:8]
    dst = os.path.join(WORK, '%s-%s' % (crate_name, tag))
    os.makedirs(dst, exist_ok=True)
    if os.path.exists(os.path.join(dst, 'src')):
        shutil.rmtree(os.path.join(dst, 'src'))
    shutil.copytree(os.path.join(src, 'src'), os.path.join(dst, 'src'))
    shutil.copy(os.path.join(src, 'Cargo.toml.in'), os.path.join(dst, 'Cargo.toml'))
    return dst


def build_native(crate_dir, bin_name):
    rc, so, se, dt = run(['cargo', 'build', '--release', '--offline'], cwd=crate_dir, timeout=1200)
    if rc != 0:
        raise Inconclusive('native build of %s failed:\n%s' % (crate_dir, se[-4000:]))
    return os.path.join(crate_dir, 'target', 'release', bin_name), dt


def parse_kani_output(text):
    """Per harness: status, failed check descriptions, time, number of checks, playback byte vectors.
    Handles the interleaved `Thread N:` output of `-j`."""
    res = {}
    cur = {}  # thread -> harness
    blocks = []  # (harness, [lines])
    active = None
    for ln in text.split('\n'):
        m = re.match(r'(?:Thread (\d+): )?Checking harness ([\w:]+)\.\.\.', ln)
        if m:
            th = m.group(1) or '-'
            name = m.group(2).split('::')[-1]
            cur[th] = name
            res.setdefault(name, {'status': None, 'failed': [], 'time': None, 'checks': None, 'raw': ''})
            active = None
            if m.group(1) is None:
                active = [name, []]
                blocks.append(active)
            continue
        m = re.match(r'Thread (\d+):\s*$', ln)
        if m:
            name = cur.get(m.group(1))
            active = [name, []]
            blocks.append(active)
            continue
        if re.match(r'(Manual Harness Summary|Concrete playback unit test|Complete - |Thread \d+:)', ln):
            active = None
            continue
        if active is not None:
            active[1].append(ln)
    for name, lines in blocks:
        if name is None:
            continue
        body = '\n'.join(lines)
        r = res[name]
        m = re.search(r'VERIFICATION:- (\w+)', body)
        if m:
            r['status'] = m.group(1)
        r['failed'] += [f.strip() for f in re.findall(r'Failed Checks: (.*)', body)]
        tm = re.search(r'Verification Time: ([\d.]+)s', body)
        if tm:
            r['time'] = float(tm.group(1))
        mc = re.search(r'\*\* (\d+) of (\d+) failed', body)
        if mc:
            r['checks'] = int(mc.group(2))
        r['raw'] += body[-4000:]
    for m in re.finditer(r'Concrete playback unit test for `([\w:]+)`:\s*```(.*?)```', text, re.S):
        name = m.group(1).split('::')[-1]
        inner = m.group(2)
        i = inner.find('vec![')
        rows = re.findall(r'vec!\[([\d,\s]*)\]', inner[i + 5:]) if i >= 0 else []
        flat = [[int(x) for x in v.split(',') if x.strip()] for v in rows]
        chk = re.search(r'Check for `\w+`: "([^"]*)"', inner)
        if name in res:
            res[name].setdefault('playback', []).append({'check': chk.group(1) if chk else None, 'vals': flat})
    return res


def run_kani(crate_dir, harnesses, jobs=16, timeout=3600, playback=False, extra=None):
    """Runs the named harnesses; with --harness filters only (never the whole crate)."""
    cmd = ['cargo', 'kani', '--output-format', 'terse']
    if jobs and jobs > 1:
        cmd += ['-j', str(jobs)]
    if playback:
        cmd += ['-Z', 'concrete-playback', '--concrete-playback=print']
    if extra:
        cmd += extra
    for h in harnesses:
        cmd += ['--harness', h]
    rc, so, se, dt = run(cmd, cwd=crate_dir, timeout=timeout)
    text = so + '\n' + se
    res = parse_kani_output(text)
    if rc not in (0, 1) and not res:
        raise Inconclusive('cargo kani failed (rc=%s):\n%s' % (rc, text[-4000:]))
    return res, dt, text


def run_kani_sharded(crate_dir, harnesses, jobs=16, timeout=3600):
    """One `cargo kani` per call compiles once and schedules harnesses itself (-j)."""
    return run_kani(crate_dir, harnesses, jobs=jobs, timeout=timeout)


def native_replay(binary, harness, bytes_):
    arg = ','.join(str(b) for b in bytes_) if bytes_ else '-'
    rc, so, se, dt = run([binary, 'replay', harness, arg], timeout=120)
    failed = re.findall(r'^FAILED (\S+)', so, re.M)
    return {'rc': rc, 'failed': failed, 'stdout': so, 'stderr': se[-2000:]}


def native_exhaust(binary, harness, alphabets, timeout=900):
    rc, so, se, dt = run([binary, 'exhaust', harness, alphabets], timeout=timeout)
    m = re.search(r'EVALUATED (\d+) REJECTED (\d+)', so)
    fails = re.findall(r'^FAILED (\S+) INPUT (\S*)', so, re.M)
    if rc is not None and rc < 0 and rc != -9 and ('overflowed its stack' in se or rc in (-6, -11, -4)):
        # the code under test took the whole process down (stack overflow = runaway recursion, abort): enumerate again with the
        # last-input trace on and report the input that was being evaluated when it died
        trace = os.path.join(WORK, 'last_input.%d.%d.txt' % (os.getpid(), threading.get_ident()))
        rc2, so2, se2, dt2 = run([binary, 'exhaust', harness, alphabets], timeout=timeout * 3, extra_env={'RUNNER_LAST_INPUT_FILE': trace})
        inp = []
        try:
            inp = [int(x) for x in open(trace).read().strip().split(',') if x.strip()]
            os.unlink(trace)
        except Exception:
            pass
        if rc2 is not None and rc2 < 0 and inp:
            return {'evaluated': 0, 'rejected': 0, 'failures': [{'obligation': 'no_crash', 'input': inp}], 'time': dt + dt2,
                    'crash': (se or se2)[-600:]}
    if rc not in (0, 1) or not m:
        raise Inconclusive('native exhaust %s failed rc=%s\n%s\n%s' % (harness, rc, so[-2000:], se[-2000:]))
    return {'evaluated': int(m.group(1)), 'rejected': int(m.group(2)),
            'failures': [{'obligation': o, 'input': [int(x) for x in i.split(',') if x]} for o, i in fails],
            'time': dt}


def expand_alpha(a):
    if '-' in a:
        lo, hi = a.split('-')
        return list(range(int(lo), int(hi) + 1))
    return [int(x) for x in a.split(',') if x.strip()]


def native_exhaust_sharded(binary, harness, alphabets, shards=8, timeout=900):
    """Same enumeration as native_exhaust, split over the values of the first position and run in parallel."""
    from concurrent.futures import ThreadPoolExecutor
    parts = alphabets.split(';')
    first = expand_alpha(parts[0])
    groups = [first[i::shards] for i in range(shards) if first[i::shards]]
    if len(groups) <= 1:
        return native_exhaust(binary, harness, alphabets, timeout=timeout)

    def one(g):
        return native_exhaust(binary, harness, ';'.join([','.join(str(x) for x in g)] + parts[1:]), timeout=timeout)
    t0 = time.time()
    with ThreadPoolExecutor(max_workers=len(groups)) as ex:
        rs = list(ex.map(one, groups))
    seen = set()
    fails = []
    for r in rs:
        for f in r['failures']:
            if f['obligation'] not in seen:
                seen.add(f['obligation'])
                fails.append(f)
    return {'evaluated': sum(r['evaluated'] for r in rs), 'rejected': sum(r['rejected'] for r in rs), 'failures': fails, 'time': time.time() - t0}
