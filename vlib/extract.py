"""Mechanical item extractor over rustc's `-Zunpretty=expanded` text.

The expanded text is rustc's own rendering of the crate after macro expansion.  This module does
no semantic processing: it splits a module body into items by brace matching (aware of strings,
char literals, lifetimes and comments) and lets callers look items up by their whitespace-normalised
header (`impl<T: Lattice> Lattice for Option<T>`, `fn versions_base(count: usize) -> ...`).
An item that cannot be found raises LostAnchor (exit 2 upstream, never a violation).
"""
import re


class LostAnchor(Exception):
    pass


def _skip_string(s, i):
    # s[i] == '"'
    i += 1
    n = len(s)
    while i < n:
        c = s[i]
        if c == '\\':
            i += 2
            continue
        if c == '"':
            return i + 1
        i += 1
    return n


def _skip_raw_string(s, i):
    # s[i] == 'r' and followed by #*"
    j = i + 1
    h = 0
    while j < len(s) and s[j] == '#':
        h += 1
        j += 1
    if j >= len(s) or s[j] != '"':
        return None
    end = s.find('"' + '#' * h, j + 1)
    if end < 0:
        return len(s)
    return end + 1 + h


_CHAR_RE = re.compile(r"'(\\(x[0-9a-fA-F]{2}|u\{[0-9a-fA-F_]+\}|.)|[^\\'])'")


def scan(s, i, end=None):
    """Generator of (pos, char) for structural characters outside strings/comments/chars."""
    n = len(s) if end is None else end
    while i < n:
        c = s[i]
        if c == '/' and i + 1 < n and s[i + 1] == '/':
            j = s.find('\n', i)
            i = n if j < 0 else j + 1
            continue
        if c == '/' and i + 1 < n and s[i + 1] == '*':
            depth = 1
            i += 2
            while i < n and depth:
                if s.startswith('/*', i):
                    depth += 1
                    i += 2
                elif s.startswith('*/', i):
                    depth -= 1
                    i += 2
                else:
                    i += 1
            continue
        if c == '"':
            i = _skip_string(s, i)
            continue
        if c == 'r' and i + 1 < n and s[i + 1] in '#"' and (i == 0 or not (s[i - 1].isalnum() or s[i - 1] == '_')):
            j = _skip_raw_string(s, i)
            if j is not None:
                i = j
                continue
        if c == 'b' and i + 1 < n and s[i + 1] == '"' and (i == 0 or not (s[i - 1].isalnum() or s[i - 1] == '_')):
            i = _skip_string(s, i + 1)
            continue
        if c == "'":
            m = _CHAR_RE.match(s, i)
            if m:
                i = m.end()
                continue
            # lifetime
            i += 1
            continue
        yield i, c
        i += 1


def match_close(s, i, open_c='{', close_c='}'):
    """s[i] == open_c; return index of matching close_c."""
    depth = 0
    for p, c in scan(s, i):
        if c == open_c:
            depth += 1
        elif c == close_c:
            depth -= 1
            if depth == 0:
                return p
    raise LostAnchor('unbalanced %s at %d' % (open_c, i))


def norm(h):
    h = re.sub(r'\s+', ' ', h).strip()
    h = re.sub(r'\s*([<>(),:&\[\];])\s*', r'\1', h)
    return h


class Item:
    __slots__ = ('attrs', 'header', 'body', 'text', 'start', 'end', 'kind', 'name', 'path')

    def __init__(self, attrs, header, body, text, start, end, path):
        self.attrs = attrs
        self.header = header  # text before '{' or ';' (without attributes)
        self.body = body  # text inside braces, or None
        self.text = text  # header + body braces (without attributes)
        self.start = start
        self.end = end
        self.path = path
        h = header.strip()
        h2 = re.sub(r'^(pub(\([^)]*\))?\s+)?(default\s+)?(unsafe\s+)?(const\s+(?=fn\b|unsafe\b|async\b|extern\b))?(async\s+)?(extern\s+"[^"]*"\s+)?', '', h)
        m = re.match(r'(impl|trait|fn|struct|enum|mod|use|type|const|static|macro_rules!|extern crate|union)\b', h2)
        self.kind = m.group(1) if m else '?'
        nm = None
        if self.kind in ('fn', 'struct', 'enum', 'trait', 'mod', 'type', 'const', 'static', 'union'):
            m2 = re.match(r'\w+\s+(\w+)', h2)
            if m2:
                nm = m2.group(1)
        elif self.kind == 'macro_rules!':
            m2 = re.match(r'macro_rules!\s*(\w+)', h2)
            nm = m2.group(1) if m2 else None
        self.name = nm

    @property
    def nheader(self):
        return norm(self.header)

    def __repr__(self):
        return '<Item %s %s>' % (self.kind, self.nheader[:80])


def parse_items(s, start=0, end=None, path=()):
    """Split s[start:end] (a module or impl/trait body) into items."""
    n = len(s) if end is None else end
    items = []
    i = start
    while True:
        # skip whitespace and comments
        while i < n:
            if s[i].isspace():
                i += 1
            elif s.startswith('//', i):
                j = s.find('\n', i)
                i = n if j < 0 else j + 1
            elif s.startswith('/*', i):
                j = s.find('*/', i)
                i = n if j < 0 else j + 2
            else:
                break
        if i >= n:
            break
        attrs = []
        item_start = i
        # attributes
        while i < n and s[i] == '#':
            j = i + 1
            if j < n and s[j] == '!':
                j += 1
            while j < n and s[j].isspace():
                j += 1
            if j < n and s[j] == '[':
                k = match_close(s, j, '[', ']')
                attrs.append(s[i:k + 1])
                i = k + 1
                while i < n and (s[i].isspace()):
                    i += 1
                # skip comments between attributes
                while s.startswith('//', i):
                    j2 = s.find('\n', i)
                    i = n if j2 < 0 else j2 + 1
                    while i < n and s[i].isspace():
                        i += 1
            else:
                break
        if i >= n:
            break
        hstart = i
        # find end of header: first '{' or ';' at paren/bracket depth 0
        depth = 0
        hend = None
        term = None
        for p, c in scan(s, i, n):
            if c in '([':
                depth += 1
            elif c in ')]':
                depth -= 1
            elif depth == 0 and c in '{;':
                hend = p
                term = c
                break
        if hend is None:
            break
        header = s[hstart:hend]
        if term == ';':
            it = Item(attrs, header, None, s[hstart:hend + 1], item_start, hend + 1, path)
            i = hend + 1
        else:
            close = match_close(s, hend)
            it = Item(attrs, header, s[hend + 1:close], s[hstart:close + 1], item_start, close + 1, path)
            i = close + 1
            # struct/const initialisers like `const X: T = T { .. };` end with ';'
            j = i
            while j < n and s[j] in ' \t':
                j += 1
            if j < n and s[j] == ';':
                i = j + 1
        items.append(it)
    return items


class Source:
    """An expanded crate with lookup helpers."""

    def __init__(self, text, crate):
        self.text = text
        self.crate = crate
        self._mods = {}
        self._index((), parse_items(text))

    def _index(self, path, items):
        self._mods[path] = items
        for it in items:
            if it.kind == 'mod' and it.body is not None:
                off = it.start + it.text.index('{') + (len(self.text[it.start:it.end]) - len(it.text))
                sub = parse_items(it.body, 0, None, path + (it.name,))
                self._index(path + (it.name,), sub)

    def module(self, path):
        path = tuple(p for p in path.split('::') if p) if isinstance(path, str) else tuple(path)
        if path not in self._mods:
            raise LostAnchor('module %s::%s not found' % (self.crate, '::'.join(path)))
        return self._mods[path]

    def find(self, path, header_norm=None, kind=None, name=None, header_re=None):
        res = []
        for it in self.module(path):
            if it.kind == 'macro_rules!':
                continue
            if kind and it.kind != kind:
                continue
            if name and it.name != name:
                continue
            if header_norm is not None and it.nheader != norm(header_norm):
                continue
            if header_re is not None and not re.search(header_re, it.nheader):
                continue
            res.append(it)
        return res

    def one(self, path, header_norm=None, **kw):
        r = self.find(path, header_norm, **kw)
        if len(r) != 1:
            raise LostAnchor('%s::%s: expected exactly one item matching %r %r, found %d' %
                             (self.crate, path if isinstance(path, str) else '::'.join(path), header_norm, kw, len(r)))
        return r[0]

    def all_items(self):
        for path, items in self._mods.items():
            for it in items:
                yield path, it


def sub_items(item):
    """fn / type / const items inside an impl or trait body."""
    if item.body is None:
        return []
    return parse_items(item.body, 0, None, item.path)


def fn_parts(fn_item):
    """Split a fn item into (signature-without-return, return type or None, where-clause or '', body or None)."""
    h = fn_item.header
    # locate the parameter list
    m = re.search(r'\bfn\s+\w+', h)
    i = m.end()
    # generics
    while i < len(h) and h[i].isspace():
        i += 1
    if i < len(h) and h[i] == '<':
        depth = 0
        for p, c in scan(h, i):
            if c == '<':
                depth += 1
            elif c == '>' and h[p - 1] != '-':
                depth -= 1
                if depth == 0:
                    i = p + 1
                    break
    while i < len(h) and h[i].isspace():
        i += 1
    assert h[i] == '(', h
    close = match_close(h, i, '(', ')')
    sig = h[:close + 1]
    rest = h[close + 1:]
    ret = None
    where = ''
    mw = re.search(r'\bwhere\b', rest)
    if mw:
        where = rest[mw.start():].strip()
        rest = rest[:mw.start()]
    mr = re.match(r'\s*->\s*(.*)$', rest, re.S)
    if mr:
        ret = mr.group(1).strip()
    return sig, ret, where, fn_item.body
