"""TrRelUnionFind forest unit (C18): Verus contracts on the subsumption forest of ascent_byods_rels::trrel_union_find::TrRelUnionFind,
extracted from the source file on every run."""
import os
import time

from . import common
from .common import REPO, WORK, run_verus, classify_verus, verus_functions, confirm_failures_in_isolation
from .extract import Source, LostAnchor
from .splice import Splicer
from .locate import Locator

CANARY = '\nverus! {\nproof fn __vacuity_canary()\n    ensures false\n{\n}\n}\n'
FILES = ['byods/ascent-byods-rels/src/trrel_union_find.rs']


def build_unit():
    from contracts import trruf as tmpl
    texts = []
    for rel in FILES:
        p = os.path.join(REPO, rel)
        if not os.path.exists(p):
            raise LostAnchor('%s not found' % rel)
        texts.append(open(p).read())
    sp = Splicer({'byods_src': Source('\n'.join(texts), 'byods_src')}, degrade=True)
    out = sp.render(tmpl.template())
    path = os.path.join(WORK, 'units', 'trruf_unit.rs')
    os.makedirs(os.path.dirname(path), exist_ok=True)
    with open(path, 'w') as f:
        f.write(out + CANARY)
    return path, sp.log


def run_verus_part():
    t0 = time.time()
    try:
        path, log = build_unit()
    except LostAnchor as ex:
        return {'path': None, 'log': None, 'status': 'inconclusive', 'inconclusive': 'lost anchor while splicing the unit: %s' % ex,
                'failures': [], 'functions': [], 'verus_s': 0.0, 'canary_ok': False}
    res = run_verus(path, timeout=900)
    st, fails, why = classify_verus(res, canary='__vacuity_canary')
    loc = Locator(open(path).read(), path)
    r = {'path': path, 'log': log, 'status': st, 'inconclusive': why if st == 'inconclusive' else None, 'failures': [],
         'functions': verus_functions(res), 'verus_s': res['wall_s'], 'canary_ok': st != 'inconclusive', 'notes': [],
         'degraded': list(log.proof_lost)}
    if fails:
        fails, dropped, notes = confirm_failures_in_isolation(path, res, fails)
        r['notes'] = notes
    for f in fails:
        name, pick, clause = loc.name_failure(f)
        r['failures'].append({'obligation': name, 'fn': pick[1], 'container': pick[0], 'kind': f['kind'], 'verifier_output': f['text']})
    r['wall_s'] = time.time() - t0
    return r
