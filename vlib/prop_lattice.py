"""C16 (all lattice obligations) and C03 (the join_mut / change-flag subset the lattice fixpoint rests on)."""
import os
import re

from . import common, kani, unit_lattice
from .unit_index import scan_assumptions
from .report import Outcome

TRUSTED = [
    'Verus 0.2026.09.13 + Z3 (SMT encoding, trait/impl obligations)',
    'Kani 0.68 + CBMC 6.11 (bit-precise symbolic execution); loop-free harnesses over full-domain bytes are complete for the instantiation',
    'rustc nightly -Zunpretty=expanded: the verified text is what it prints for /repo',
    "vstd's specifications of PartialEq/PartialOrd/Ord for integers, Option and pairs, and of Ord::min/max",
    "assumed: std's `impl PartialOrd for Reverse<T>` compares the wrapped values with swapped arguments",
    'rewrite rules R1 (mut self), R2 (|= on bool), R3 (attributes, derives), R5 (path prefixes) preserve semantics (argued in DESIGN.md section 3)',
    'spec-level == is structural equality; for generic parameters this is tied to PartialEq by the hypothesis lat_wf()',
]


def c03_relevant_verus(f):
    # everything except BoundedLattice top/bottom
    return f['fn'] not in ('top', 'bottom')


def c03_relevant_harness(h):
    return not h.startswith('bounded_')


def run(pid, tier):
    out = Outcome(pid, tier, 'proof')
    try:
        unit = unit_lattice.run_unit(tier)
    except (common.Inconclusive, unit_lattice.LostAnchor) as ex:
        out.inconclusive.append('lattice unit could not be built/run: %s' % ex)
        out.coverage = {'explanation': 'unit did not run', 'obligations': 0, 'discharged': 0, 'checker_cmd': 'verus', 'trusted_base': TRUSTED}
        return out.finish()
    v, k, n = unit['verus'], unit['kani'], unit['native']
    sv = unit['verus_set']
    c03 = pid == 'C03'

    vfails = [f for f in v['failures'] + sv['failures'] if (not c03 or c03_relevant_verus(f))]
    for f in vfails:
        cex = unit_lattice.find_cex_for_verus_failure(f, unit)
        if cex:
            out.violation(f['obligation'], 'verus (counterexample from %s, harness %s)' % (cex['source'], cex['harness']),
                          f['verifier_output'], failing_input={'harness': cex['harness'], 'bytes': cex['input_bytes'],
                                                               'failed_on_real_code': cex['replay_failed']},
                          replay_transcript=cex['replay_stdout'])
        elif unit_lattice.companions_all_passed(f, unit):
            out.proof_lost.append('verus could not prove %s, but every companion harness of this impl (%s) passed (Kani: full domain of its '
                                    'instantiation; native: the enumerated universe) and no failing input exists: the generic PROOF is lost (e.g. a refactor outside the '
                                    'solver\'s automation), no violation is demonstrated.\n%s' % (f['obligation'], ', '.join(unit_lattice.companions(f)), f['verifier_output'][:1500]))
        else:
            out.violation(f['obligation'], 'verus', f['verifier_output'])
    # ---- Kani
    for msg in k['inconclusive']:
        out.inconclusive.append('kani: ' + msg)
    reported_harness = set()
    tool_limited = set()
    for kf in k['failures']:
        h = kf['harness']
        if c03 and not c03_relevant_harness(h):
            continue
        confirmed = False
        for pb in kf['playback']:
            flat = [b for vv in pb['vals'] for b in vv]
            rp = kani.native_replay(unit['binary'], h, flat)
            if rp['failed'] or rp['rc'] not in (0, 3):
                names = rp['failed'] or ['panic']
                for nm in names:
                    ob = 'kani::%s::%s' % (h, nm)
                    if ob in reported_harness:
                        continue
                    reported_harness.add(ob)
                    out.violation(ob, 'kani (counterexample replayed natively on the real code)', kf['raw'],
                                  failing_input={'harness': h, 'bytes': flat, 'failed_on_real_code': names},
                                  replay_transcript=rp['stdout'] + rp['stderr'])
                confirmed = True
        if not confirmed and not kf.get('playback_attempted', True):
            # same defect seen through another instantiation; counterexample extraction was capped
            out.violation('kani::%s::%s' % (h, '+'.join(kf['failed_checks'])[:120]), 'kani', kf['raw'])
        elif not confirmed and not kf['failed_checks'] and not kf['playback']:
            # Kani produced no verdict on the obligations of this harness (CBMC crashed / ran out of memory / gave no named failing
            # check): fall back to the native runner of the same harness over a small alphabet (bounded)
            found = None
            for width, alpha in ((6, '0,1,2,255'), (9, '0,1,2'), (12, '0,1')):
                try:
                    rr = kani.native_exhaust(unit['binary'], h, ';'.join([alpha] * width), timeout=300)
                except common.Inconclusive:
                    continue
                if rr['failures']:
                    found = rr['failures'][0]
                    break
            if found:
                rp = kani.native_replay(unit['binary'], h, found['input'])
                out.violation('native::%s::%s' % (h, found['obligation']), 'native enumeration (Kani gave no verdict for this harness)', kf['raw'],
                              failing_input={'harness': h, 'bytes': found['input'], 'failed_on_real_code': rp['failed']}, replay_transcript=rp['stdout'])
            else:
                tool_limited.add(h)
                out.proof_lost.append('kani gave no verdict for harness %s (tool failure: %s); the native runner of the same harness found no failing input over '
                                      'small alphabets (bounded)' % (h, kf['raw'].strip().split('\n')[0][:120]))
        elif not confirmed:
            out.inconclusive.append('kani harness %s failed (%s) but no counterexample replays on the real code: treated as a tool artefact'
                                    % (h, kf['failed_checks']))
    # ---- Verus units that could not be processed at all (lost anchor, unsupported construct): decided by the companions
    companions_clean = (not k['inconclusive'] and not n['failures'] and not out.violations and not out.inconclusive
                        and all(k['results'].get(h, {}).get('status') == 'SUCCESSFUL' or h in tool_limited for h in k['harnesses']))
    for unit_name, uu in (('main lattice unit', v), ('set unit', sv)):
        if uu['inconclusive']:
            msg = 'verus could not process the %s (%s)' % (unit_name, uu['inconclusive'].strip().split('\n')[0][:300])
            if companions_clean:
                out.proof_lost.append(msg + ': the generic proofs of this unit are unavailable on this tree; every Kani harness (complete for its '
                                      'instantiation, or decided by its native runner where Kani gave no verdict) and every native exhaustive run passed')
            else:
                out.inconclusive.append(msg + '\n' + uu['inconclusive'])
    # ---- native exhaustive
    for nf in n['failures']:
        if c03 and not c03_relevant_harness(nf['harness']):
            continue
        rp = kani.native_replay(unit['binary'], nf['harness'], nf['input'])
        out.violation('native::%s::%s' % (nf['harness'], nf['obligation']), 'exhaustive native execution of the real code',
                      'obligation %s failed for input bytes %s' % (nf['obligation'], nf['input']),
                      failing_input={'harness': nf['harness'], 'bytes': nf['input'], 'failed_on_real_code': rp['failed']},
                      replay_transcript=rp['stdout'])

    # ---- C03 only: the second library mechanism the property names -- "set-valued lattice indices make re-insertion of a row
    # number idempotent" -- is the LatticeIndexType contract of the index unit
    lat_idx_cov = None
    if c03:
        from . import unit_index
        try:
            iv = unit_index.run_verus_part()
            if iv['inconclusive']:
                out.inconclusive.append('verus (index unit, LatticeIndexType): ' + iv['inconclusive'])
            crate_i = kani.instantiate('idxcheck')
            ibin, _ = kani.build_native(crate_i, 'idxcheck')
            plan = [p for p in unit_index.native_plan(tier) if p[0].startswith('lattice_')]
            nres = {p[0]: kani.native_exhaust(ibin, p[0], p[1]) for p in plan}
            for f in iv['failures']:
                if 'LatticeIndexType' not in f['container']:
                    continue
                cexs = [(h, r['failures'][0]) for h, r in nres.items() if r['failures']]
                if cexs:
                    h, fi = cexs[0]
                    rp = kani.native_replay(ibin, h, fi['input'])
                    out.violation(f['obligation'], 'verus (failing input from the native contract enumeration, harness %s)' % h, f['verifier_output'],
                                  failing_input={'crate': 'idxcheck', 'harness': h, 'bytes': fi['input'], 'failed_on_real_code': rp['failed']},
                                  replay_transcript=rp['stdout'])
                elif 'invariant' in f['kind'] or 'arithmetic' in f['kind']:
                    out.inconclusive.append('verus: %s of %s without a failing input: proof lost' % (f['kind'], f['obligation']))
                else:
                    out.violation(f['obligation'], 'verus', f['verifier_output'])
            lat_fns = [x for x in iv['functions'] if x[0].split('::')[-1] in ('index_insert', 'move_index_contents', 'index_get', 'len_estimate', 'is_empty')]
            lat_idx_cov = {'unit': iv['path'], 'note': 'LatticeIndexType::{index_insert, move_index_contents, index_get}: set-valued per key, re-insertion idempotent',
                           'native_cross_check': {h: {'evaluated': r['evaluated'], 'failures': len(r['failures'])} for h, r in nres.items()}}
        except (common.Inconclusive, unit_lattice.LostAnchor) as ex:
            out.inconclusive.append('index unit (LatticeIndexType): %s' % ex)

    # ---- evidence
    log = v['log']
    vfuncs = [f for f in v['functions'] + sv['functions'] if f[0] and '__vacuity_canary' not in f[0]]
    v_ok = sum(1 for f in vfuncs if f[2])
    kres = k['results']
    k_sel = [h for h in k['harnesses'] if (not c03 or c03_relevant_harness(h))]
    k_ok = sum(1 for h in k_sel if kres.get(h, {}).get('status') == 'SUCCESSFUL')
    k_checks = sum((kres.get(h, {}).get('checks') or 0) for h in k_sel)
    n_sel = {h: r for h, r in n['results'].items() if (not c03 or c03_relevant_harness(h))}
    exact = {h: r for h, r in n_sel.items() if not r['bounded']}
    bounded = {h: r for h, r in n_sel.items() if r['bounded']}
    obligations = len(vfuncs) + len(k_sel) + len(exact)
    discharged = v_ok + k_ok + sum(1 for r in exact.values() if not r['failures'])
    slow = sorted(vfuncs, key=lambda f: -f[3])[:5]
    out.coverage = {
        'obligations': obligations,
        'discharged': discharged,
        'checker_cmd': 'verus %s --output-json --time-expanded  &&  cargo kani --harness <each of %d harnesses> (in %s)  &&  lawcheck exhaust <harness> <domain>'
                       % (v['path'], len(k_sel), k['crate']),
        'trusted_base': TRUSTED,
        'explanation': 'obligation = one Verus function (all its ensures/requires/termination queries) or one Kani harness (all its named law assertions) '
                       'or one exhaustive finite-carrier check; bounded stand-ins are listed separately and not counted',
        'backends': {
            'verus': {'functions_verified': v_ok, 'functions_total': len(vfuncs), 'real_functions_spliced': len(log.real_fns) + len(sv['log'].real_fns),
                      'units': [v['path'], sv['path']],
                      'solver_wall_s': round(v['verus_s'] + sv['verus_s'], 2), 'expand_s': round(v['expand_s'], 2),
                      'vacuity_canary_failed_as_required': v['canary_ok'] and sv['canary_ok'],
                      'slowest_functions_us': [[f[0], f[3]] for f in slow]},
            'kani': {'harnesses_successful': k_ok, 'harnesses_total': len(k_sel), 'cbmc_checks': k_checks, 'wall_s': round(k['wall_s'], 2),
                     'solver_s_sum': round(sum((kres.get(h, {}).get('time') or 0) for h in k_sel), 2)},
            'native_exhaustive_finite_carriers': {h: {'evaluated': r['evaluated'], 'domain': r['domain']} for h, r in exact.items()},
        },
        'bounded_standins_not_counted_as_proved': {h: {'evaluated': r['evaluated'], 'domain': r['domain'], 'failures': len(r['failures'])}
                                                   for h, r in bounded.items()},
        'functions_under_contract': sorted(set('%s::%s %s :: %s' % (f['crate'], f['mod'], f['container'], f['fn']) for f in log.real_fns + sv['log'].real_fns)),
        'lattice_unit_assumption_scan': (scan_assumptions(open(v['path']).read()) if v['path'] else []),
        'set_unit_assumption_scan': (scan_assumptions(open(sv['path']).read()) if sv['path'] else []),
        'functions_assumed_in_verus_proved_by_kani': log.external,
        'rewrites_applied': summarize_rewrites(log.rewrites + sv['log'].rewrites),
        'samples': [
            {'verus_obligation': 'impl<T:Lattice>Lattice for Option<T> :: join_mut :: ensures Self::lat_wf() ==> changed == (*final(self) != *old(self))'},
            {'kani_harness': 'lift_rc_p2', 'asserts': ['lift_join_mut_value_is_inner_join_mut', 'lift_join_mut_flag_is_inner_flag', 'lift_does_not_modify_shared_arguments']},
            {'native': 'laws_bool over all 8 triples'},
        ] + [{'verus_function': f[0], 'mode': f[1], 'micros': f[3]} for f in vfuncs[:3]],
    }
    out.assumptions = list(TRUSTED) + [
        'Verus: %d real functions emitted as external_body (contract assumed there, discharged by Kani at u8): %s' % (len(log.external), log.external),
        'Kani instantiations are at u8-based payloads; wider integers are covered by Verus (all 12 widths) and by the laws_<int> harnesses',
        'Set / BoundedSet: proved by Verus in a separate unit with a VIEW-based contract (abstract equality = equal element sets) against ASSUMED contracts of '
        'BTreeSet::{into_iter, is_subset, is_superset, ==} (listed in set_unit_assumption_scan); ghost statements (R7) and widened field visibility (R8) are inserted; '
        'the native exhaustive runs over a small universe remain as bounded cross-check and failing-input source (CBMC does not terminate on BTreeSet code)',
        'Rc/Arc/Box/Reverse, ConstPropagation::{join_mut,meet_mut}, Product<[T;N]>: decided by Kani for the listed instantiations only (N <= 4)',
        'termination of the lattice operations is checked by Verus only for the functions it verifies',
    ]
    if tier == 'thorough' and not out.violations:
        out.coverage['proof_stability_under_smt_seeds'] = {os.path.basename(u['path']): common.stability_sweep(u['path']) for u in (v, sv) if u['path']}
    if c03 and lat_idx_cov:
        out.coverage['lattice_index_idempotent_reinsertion'] = lat_idx_cov
    if c03:
        out.assumptions.append('C03 PARTIAL: the generated lattice head update (lookup in new/delta/total, re-queueing as delta, one row per key) is token generation in ascent_macro and is NOT covered')
    return out.finish()


def summarize_rewrites(rw):
    d = {}
    for r in rw:
        d[r['rule']] = d.get(r['rule'], 0) + 1
    ex = {}
    for r in rw:
        ex.setdefault(r['rule'], r['where'] + ' :: ' + r['detail'][:80])
    return {'counts': d, 'examples': ex}
