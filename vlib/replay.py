"""./check <id> --replay <file>: re-runs the failing input recorded in a replay file against the real code."""
import json
import os
import re
import sys

from . import common, kani


def run(pid, path):
    txt = open(path).read()
    print(txt[:2000])
    m = re.search(r'^failing input \(replayed against the real code\): (\{.*\})$', txt, re.M)
    if not m:
        print('replay file carries no failing input (no-failing-input-found); the failed obligation and verifier output are above')
        return 1
    inp = json.loads(m.group(1))
    crate_name = inp.get('crate', 'lawcheck')
    crate = kani.instantiate(crate_name)
    binary, _ = kani.build_native(crate, crate_name)
    rp = kani.native_replay(binary, inp['harness'], inp['bytes'])
    print('--- replay on %s ---' % common.REPO)
    print(rp['stdout'] + rp['stderr'])
    return 1 if (rp['failed'] or rp['rc'] not in (0, 3)) else 0
