"""./check <id> --replay <file>: re-runs the failing input recorded in a replay file against the real code."""
import json
import os
import re
import sys

from . import common, kani


def run(pid, path):
    txt = open(path).read()
    print(txt[:2000])
    m = re.search(r'^failing input \(replayed against the real code\): (\{.*\})$', txt, re.M)
    if not m:
        print('replay file carries no failing input (no-failing-input-found); the failed obligation and verifier output are above')
        return 1
    inp = json.loads(m.group(1))
    if 'kernel' in inp:
        import subprocess
        print('--- replay on %s: %s ---' % (common.REPO, inp.get('cmd')))
        from . import unit_kernels
        text, _ = unit_kernels.extract_items()
        kc = kani.instantiate_plain('kernels')
        open(os.path.join(kc, 'src', 'extracted.rs'), 'w').write(text)
        binary, _ = kani.build_native(kc, 'kernels')
        args = inp['cmd'].split()[1:]
        r = subprocess.run([binary] + args, capture_output=True, text=True)
        print(r.stdout + r.stderr)
        return 1 if r.returncode == 1 else 0
    crate_name = inp.get('crate', 'lawcheck')
    if crate_name == 'aggcheck':
        from . import unit_agg
        crate, _, _ = unit_agg.prepare_crate()
    elif crate_name == 'ufcheck':
        from . import unit_uf
        crate, _ = unit_uf.prepare_crate()
    else:
        crate = kani.instantiate(crate_name)
    binary, _ = kani.build_native(crate, crate_name)
    rp = kani.native_replay(binary, inp['harness'], inp['bytes'])
    print('--- replay on %s ---' % common.REPO)
    print(rp['stdout'] + rp['stderr'])
    return 1 if (rp['failed'] or rp['rc'] not in (0, 3)) else 0
