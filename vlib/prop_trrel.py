"""C11 (PARTIAL): the pair store under the trrel provider (BinaryRel) is proved (Verus, unbounded); the closure computation and the
delta/total protocol of the binary and ternary trrel providers are bounded native stand-ins."""
import time
from concurrent.futures import ThreadPoolExecutor

from . import common, kani, unit_binrel as unit_eqrel, unit_uf, unit_index
from .extract import LostAnchor
from .prop_index import summarize_rewrites
from .report import Outcome

TRUSTED = [
    'Verus 0.2026.09.13 + Z3 (vstd specifications of Vec, HashMap, HashSet, hash_map::Entry)',
    'hashbrown::{HashMap, HashSet} modelled by std::collections::{HashMap, HashSet}; rustc_hash::FxHasher by a stand-in type',
    'assumed contracts (listed under coverage.assumption_scan): Entry::or_default, Option::is_some_and, HashSet::default() / Vec::default() are empty, '
    'BuildHasherDefault<FxHasher> builds valid hashers',
    'hypotheses on the element type T stated as preconditions: vstd obeys_key_model::<T>() and "T::clone returns an equal value"',
]


def native_plan(tier):
    bin_dom = 'every sequence of <= %d events {derive (a, b) over 4 items, end of iteration, end of stratum} + a closing stratum end, binary trrel provider'
    ter_dom = 'every sequence of <= %d events {derive (k, a, b) over 2 keys x 3 items, end of iteration, end of stratum} + a closing stratum end, ternary trrel provider (both reverse maps)'
    ter3_dom = ter_dom.replace('2 keys', '3 keys')
    sweep_dom = 'size sweep of the pair store under the binary provider: 4 shapes x n <= %d pairs sharing one column value or spread over two, both write paths, every pair offered twice; delta and total read through every view'
    if tier == 'thorough':
        return [('trrel_protocol_le6', ';'.join(['0-18'] * 6), bin_dom % 6), ('trrel_ternary_protocol_le6', ';'.join(['0-20'] * 6), ter_dom % 6),
                ('trrel_ternary_protocol_k3_le5', ';'.join(['0-29'] * 5), ter3_dom % 5), ('binrel_sweep', '0-3;1-70', sweep_dom % 70)]
    return [('trrel_protocol_le4', ';'.join(['0-18'] * 4), bin_dom % 4), ('trrel_ternary_protocol_le4', ';'.join(['0-20'] * 4), ter_dom % 4),
            ('trrel_ternary_protocol_k3_le4', ';'.join(['0-29'] * 4), ter3_dom % 4), ('binrel_sweep', '0-3;1-40', sweep_dom % 40)]


def run(pid, tier):
    out = Outcome(pid, tier, 'other')
    t0 = time.time()
    native = {}
    native_failures = []
    binary = None
    with ThreadPoolExecutor(max_workers=2) as ex:
        fv = ex.submit(unit_eqrel.run_verus_part)
        try:
            crate, _ = unit_uf.prepare_crate()
            binary, _ = kani.build_native(crate, 'ufcheck')
            def one(p):
                to = 300 if tier == 'quick' else 7200
                if tier == 'thorough':
                    return p, kani.native_exhaust_sharded(binary, p[0], p[1], shards=16, timeout=to)
                return p, kani.native_exhaust(binary, p[0], p[1], timeout=to)
            with ThreadPoolExecutor(max_workers=4 if tier == 'quick' else 1) as ex2:
                for (h, alpha, dom), r in ex2.map(one, native_plan(tier)):
                    native[h] = dict(r, domain=dom)
                    for f in r['failures']:
                        native_failures.append({'harness': h, 'obligation': f['obligation'], 'input': f['input']})
        except (common.Inconclusive, LostAnchor) as exn:
            out.inconclusive.append('native eqrel protocol companion could not run: %s' % str(exn)[-1500:])
        v = fv.result()
    natives_ran_clean = bool(native) and not native_failures and not out.inconclusive
    # ---- native failures: failing inputs on the real code
    for nf in native_failures:
        rp = kani.native_replay(binary, nf['harness'], nf['input'])
        out.violation('native::%s::%s' % (nf['harness'], nf['obligation']), 'bounded native execution of the real trrel provider',
                      'obligation %s failed for input bytes %s' % (nf['obligation'], nf['input']),
                      failing_input={'crate': 'ufcheck', 'harness': nf['harness'], 'bytes': nf['input'], 'failed_on_real_code': rp['failed']},
                      replay_transcript=rp['stdout'])
    # ---- Verus
    if v['status'] == 'inconclusive':
        msg = 'verus could not process the BinaryRel unit (%s)' % (v['inconclusive'] or '').strip().split('\n')[0][:300]
        if natives_ran_clean:
            out.proof_lost.append(msg + ': the proof of BinaryRel is unavailable on this tree; the bounded protocol companion passed')
        elif not native_failures:
            out.inconclusive.append(msg + '\n' + (v['inconclusive'] or ''))
    for dg in v.get('degraded') or []:
        msg = 'the proof annotations of %s no longer fit the code (%s): its contract is ASSUMED in this run, the other functions are still verified against it' % (dg['fn'], dg['why'][:200])
        if natives_ran_clean:
            out.proof_lost.append(msg + '; the bounded protocol companion passed')
        elif not native_failures:
            out.inconclusive.append(msg)
    for f in v['failures']:
        if native_failures:
            # the demonstrated failing input is the report; the lost obligation is attached to it
            out.notes.append('verus: %s' % f['obligation'])
            continue
        if natives_ran_clean:
            out.proof_lost.append('verus could not prove %s; the bounded protocol companion (every event sequence of the stated length over 4 items, all index views) '
                                  'found no failing input: proof lost, no violation demonstrated.\n%s' % (f['obligation'], f['verifier_output'][:1500]))
        else:
            out.violation(f['obligation'], 'verus', f['verifier_output'])
    funcs = [f for f in v['functions'] if f[0] and '__vacuity_canary' not in f[0]]
    ok = sum(1 for f in funcs if f[2])
    log = v['log']
    body = open(v['path']).read() if v.get('path') else ''
    out.coverage = {
        'obligations': len(funcs),
        'discharged': ok if v['status'] == 'ok' else sum(1 for f in funcs if f[2]),
        'checker_cmd': 'verus %s --output-json --time-expanded  ;  ufcheck exhaust trrel_protocol_le4 / trrel_ternary_protocol_le4 <alphabets>' % v.get('path'),
        'trusted_base': TRUSTED,
        'explanation': 'obligation = one Verus function of the BinaryRel unit. BinaryRel::insert / contains (binary_rel.rs, extracted from the source file on every run) are verified '
                       'against: abstract view has(a, b); invariant wf (the reverse map mirrors the map, without repetitions); insert(x, y) adds exactly the pair (x, y), returns true '
                       'exactly when it was new and keeps wf; contains decides has. This is the store the trrel provider keeps its raw and closed pairs in. The closure computation '
                       '(the inner semi-naive loop of TrRelIndCommon::merge_delta_to_total_new_to_delta, written with iterator adapters over hashbrown maps) and the index views are '
                       'outside Verus: they are exercised only by the bounded native protocol companion.',
        'backends': {'verus': {'functions_verified': ok, 'functions_total': len(funcs), 'solver_wall_s': round(v.get('verus_s', 0.0), 2),
                               'real_functions_under_contract': [r['fn'] for r in log.real_fns] if log else [],
                               'vacuity_canary_failed_as_required': v.get('canary_ok', False)}},
        'functions_under_contract': ['ascent_byods_rels::binary_rel::BinaryRel::%s' % r['fn'] for r in (log.real_fns if log else [])],
        'not_under_contract': ['BinaryRel::{insert_by_ref (hashbrown raw_entry_mut), iter_all, count_estimate, count_exact}',
                               'everything in trrel_binary_ind.rs and trrel_ternary_ind.rs (the closure loop, can_add, the per-key merge, reverse maps, all index views): bounded native companion only',
                               'trrel_binary.rs (TrRel, not used by the provider), the code the macro generates around the provider'],
        'rewrites_applied': summarize_rewrites(log.rewrites) if log else {},
        'dropped_functions': log.dropped if log else [],
        'contracts_assumed_in_this_run_because_annotations_lost': [d['fn'] for d in (v.get('degraded') or [])],
        'assumption_scan': unit_index.scan_assumptions(body),
        'bounded_native_companion_not_counted': {h: {'evaluated': r['evaluated'], 'domain': r['domain'], 'failures': len(r['failures'])} for h, r in native.items()},
        'verus_functions': [[f[0], f[1], f[2]] for f in funcs],
        'samples': [{'contract': 'insert: final(self).has(a, b) <==> old(self).has(a, b) || (a == x && b == y);  r == !old(self).has(x, y);  wf kept'},
                    {'native': 'trrel_ternary_protocol_le4 bytes [6, 19, 2]: derive (0,1,2); end of iteration; derive (0,0,1) -> delta must show (0,0,2) through every view'}],
    }
    out.assumptions = TRUSTED + [
        'C11 PARTIAL: proved (unbounded) is the pair store BinaryRel::{insert, contains} only; the transitive-closure computation, delta/total bookkeeping, per-key merge, reverse maps '
        'and every index view of the binary and ternary trrel providers are checked by a BOUNDED native enumeration (<= 4 / 5 events over 4 items, resp. 2 keys x 3 items)',
        'the oracle of the bounded companion is the full per-key transitive closure, including the pairs (x, x) that cycles imply',
        'the generated code around the provider is not covered',
    ]
    if tier == 'thorough' and v.get('path') and v['status'] == 'ok':
        import os
        out.coverage['proof_stability_under_smt_seeds'] = {os.path.basename(v['path']): common.stability_sweep(v['path'], seeds=(1, 2, 3, 4, 5))}
    return out.finish()
