"""C19 (serial index building blocks) and the library-kernel parts of C01, C04, C05, C09."""
import re

from . import common, kani, unit_index
from .extract import LostAnchor
from .report import Outcome

TRUSTED = [
    'Verus 0.2026.09.13 + Z3',
    "vstd's specifications of std HashMap / hash_map::Entry / HashSet / Vec / Option / mem::swap / slice::Iter / hash_set::Iter and of for-loops over prophetic iterators",
    'ASSUMED contracts written here (each listed in assumption_scan): HashMap::drain yields every entry once and empties the map; hash_map::Drain is a lawful iterator; '
    'Entry::or_default behaves as or_insert(Default::default()); HashSet::default() is empty; <HashSet as Extend>::extend is set union; std::iter::once yields its argument once; '
    'BuildHasherDefault<FxHasher> builds valid hashers',
    'hashbrown::HashMap is MODELLED by std::collections::HashMap (insert/contains_key/get/len/is_empty/reserve/drain/raw_entry_mut().from_key/RawVacantEntryMut::insert); '
    'FxHasher is a stand-in type',
    'K: Hash + Eq obeys vstd\'s key model (obeys_key_model::<K>() is a precondition of every contract): column types with inconsistent Hash/Eq are outside the claim',
    'rustc nightly -Zunpretty=expanded; rewrite rules R3 (attributes), R4 (timing statistics dropped, unverified), R5 (path prefixes), R6 (naming the ghost iterator of a for loop)',
    'Kani 0.68 + CBMC 6.11 for the combined view',
]


def relevant_verus(pid, cont, fn):
    if fn == 'run_rule':
        return pid == 'C09'
    if pid == 'C09':
        return False
    if pid == 'C19':
        return True
    merge_default = 'trait RelIndexMerge' in cont
    t1 = 'RelIndexType1' in cont
    full = 'HashBrownRelFullIndexType' in cont or 'hashbrown' in cont
    noidx = 'RelNoIndexType' in cont
    lat = 'LatticeIndexType' in cont
    if pid == 'C01':
        return merge_default or t1 or full or noidx
    if pid == 'C04':
        return (merge_default or t1 or full or noidx or lat) and fn in ('index_insert', 'move_index_contents', 'index_get',
                                                                          'merge_delta_to_total_new_to_delta', 'init')
    if pid == 'C05':
        return (full and fn in ('insert_if_not_present', 'contains_key', 'move_index_contents', 'index_insert', 'from_key', 'insert',
                                'raw_entry_mut', 'drain', 'get', 'len', 'is_empty', 'reserve')) or merge_default
    return False


def relevant_native(pid, h):
    if pid == 'C19' or h.startswith('trusted_base_'):
        return True
    if pid == 'C01':
        return h.startswith(('type1_', 'full_', 'noindex_', 'combined_', 'forwarders_'))
    if pid == 'C04':
        return h.startswith(('type1_', 'full_', 'noindex_', 'lattice_', 'combined_', 'forwarders_'))
    if pid == 'C05':
        return h.startswith(('full_', 'forwarders_'))
    return False


PARTIAL_NOTE = {
    'C01': 'C01 PARTIAL: only the library kernels the least-model computation rests on are covered (index insert/lookup/merge, the dedup full index, '
           'the semi-naive version vectors). The rule dependency graph / SCC order, index selection, the per-SCC loop, __changed, head update and join '
           'code are token generation in ascent_macro and are NOT covered: a defect there is invisible to this check.',
    'C04': 'C04 PARTIAL: covered are "each stored tuple is seen exactly once" (insert adds one occurrence, merges neither duplicate nor lose, lookup ranges over '
           'exactly the stored entries) and the aggregators min/max/sum/count/mean/not (bounded, as in C17; percentile is left to C17). Stratification, agg codegen and index choice for agg clauses are macro code, NOT covered.',
    'C05': 'C05 PARTIAL (serial only): insert_if_not_present succeeds exactly for the first insertion of a key and never overwrites; contains_key is exact; merging full '
           'indices keeps every key. The generated contains_key(total)/contains_key(delta) pre-check and row push, and every concurrent schedule '
           '(CRelFullIndex) are NOT covered.',
}


def run(pid, tier):
    out = Outcome(pid, tier, 'proof')
    try:
        unit = unit_index.run_unit(tier, with_kani=(pid == 'C19'), with_concurrent={'C19': 'all', 'C05': 'full'}.get(pid))
    except (common.Inconclusive, LostAnchor) as ex:
        out.inconclusive.append('index unit could not be built/run: %s' % ex)
        out.coverage = {'explanation': 'unit did not run', 'obligations': 0, 'discharged': 0, 'checker_cmd': 'verus', 'trusted_base': TRUSTED}
        return out.finish()
    v, k, n = unit['verus'], unit['kani'], unit['native']
    natives_clean = bool(n['results']) and not n['failures']
    if v['inconclusive']:
        msg = 'verus could not process the index unit (%s)' % v['inconclusive'].strip().split('\n')[0][:300]
        if natives_clean:
            out.proof_lost.append(msg + ': the proofs of this unit are unavailable on this tree; the executable contracts of the same functions '
                                  '(exhaustive small operation sequences, size sweeps) found no failing input')
        else:
            out.inconclusive.append(msg + '\n' + v['inconclusive'])
    for f in v['failures']:
        if not relevant_verus(pid, f['container'], f['fn']):
            continue
        cex = unit_index.find_cex(f, unit)
        if cex:
            out.violation(f['obligation'], 'verus (failing input from %s, harness %s)' % (cex['source'], cex['harness']), f['verifier_output'],
                          failing_input={'crate': 'idxcheck', 'harness': cex['harness'], 'bytes': cex['input_bytes'], 'failed_on_real_code': cex['replay_failed']},
                          replay_transcript=cex['replay_stdout'])
        elif unit_index.companions_ran_clean(f, unit) and f['fn'] != 'run_rule':
            # No failing input exists in any domain the executable contracts of this very function were run over (exhaustive
            # small operation sequences + size sweeps).  A Verus failure then most likely means a lost PROOF: a correct refactor
            # can leave the solver's automation (a closure without a specification, a helper the template does not know, a
            # restructured loop whose spliced invariant no longer fits, a machine-overflow obligation on container sizes).
            # It is not reported as a violation.
            out.proof_lost.append('verus: %s of %s, but the executable form of the same contract found no failing input on the real function '
                                    '(harnesses %s): proof lost, no violation demonstrated.\n%s' % (
                                        f['kind'], f['obligation'], ', '.join(unit_index.cex_candidates(f['container'], f['fn'])), f['verifier_output'][:1500]))
        else:
            out.violation(f['obligation'], 'verus', f['verifier_output'])
    for msg in k['inconclusive']:
        out.inconclusive.append(msg)
    for kf in k['failures']:
        confirmed = False
        for pb in kf['playback']:
            flat = [b for vv in pb['vals'] for b in vv]
            nh = kf['harness'] + '_native' if not kf['harness'].endswith('_native') else kf['harness']
            nh = {'combined_view': 'combined_view_native', 'forwarders': 'forwarders_native'}.get(kf['harness'], nh)
            rp = kani.native_replay(unit['binary'], nh, flat)
            if rp['failed'] or rp['rc'] not in (0, 3):
                for nm in (rp['failed'] or ['no_panic']):
                    out.violation('kani::%s::%s' % (kf['harness'], nm), 'kani (counterexample replayed natively on the real code)', kf['raw'],
                                  failing_input={'crate': 'idxcheck', 'harness': nh, 'bytes': flat, 'failed_on_real_code': rp['failed'] or ['no_panic']},
                                  replay_transcript=rp['stdout'] + rp['stderr'])
                confirmed = True
                break
        if not confirmed:
            out.inconclusive.append('kani harness %s failed (%s) but no counterexample replays on the real code' % (kf['harness'], kf['failed_checks']))
    for nf in n['failures']:
        if not relevant_native(pid, nf['harness']):
            continue
        rp = kani.native_replay(unit['binary'], nf['harness'], nf['input'])
        out.violation('native::%s::%s' % (nf['harness'], nf['obligation']), 'exhaustive native execution of the real code',
                      'obligation %s failed for input bytes %s' % (nf['obligation'], nf['input']),
                      failing_input={'crate': 'idxcheck', 'harness': nf['harness'], 'bytes': nf['input'], 'failed_on_real_code': rp['failed']},
                      replay_transcript=rp['stdout'])

    extra_cov = {}
    extra_assumptions = []
    c = unit.get('concurrent')
    if c:
        for cf in c['failures']:
            rp = kani.native_replay(c['binary'], cf['harness'], cf['input'])
            still = rp['failed'] or (['no_panic'] if rp['rc'] not in (0, 3) else [])
            note = None if still else ('the failing run depended on a thread schedule: replaying the same input did not fail again (re-run --replay a few times); '
                                       'the recorded failure was observed on the real code in this run')
            out.violation('concurrent-standin::%s::%s' % (cf['harness'], cf['obligation']),
                          'bounded native execution of the real concurrent index types (sequential enumeration + sampled schedules)',
                          'obligation %s failed for input bytes %s' % (cf['obligation'], cf['input']),
                          failing_input={'crate': 'cidxcheck', 'harness': cf['harness'], 'bytes': cf['input'], 'failed_on_real_code': still or [cf['obligation']]},
                          replay_transcript=rp['stdout'] + rp['stderr'], extra=note)
        extra_cov['bounded_concurrent_types_standin_not_counted'] = {h: {'evaluated': r['evaluated'], 'domain': r['domain'], 'failures': len(r['failures'])}
                                                                     for h, r in c['results'].items()}
    # ---- property specific additions
    versions_verus = None
    if pid == 'C01':
        from . import unit_kernels
        try:
            kr = unit_kernels.run_kernels(tier, {'versions'})
            for f in kr['failures']:
                out.violation('kernels::versions_base::%s' % f['obligation'], 'exhaustive native execution of the function extracted verbatim from /repo',
                              'obligation %s failed' % f['obligation'], failing_input={'kernel': 'versions_base', 'input': f['input'], 'cmd': f['cmd']})
            extra_cov['bounded_versions_base_cross_check'] = kr['results']
            try:
                vv = unit_kernels.run_versions_verus()
            except (common.Inconclusive, LostAnchor) as ex2:
                vv = {'status': 'inconclusive', 'inconclusive': str(ex2), 'failures': [], 'functions': [], 'log': None, 'path': None, 'verus_s': 0.0}
            versions_verus = vv
            if vv['status'] == 'ok':
                extra_cov['versions_base_verus'] = {'status': 'proved for every n (unbounded)', 'unit': vv['path'], 'solver_wall_s': round(vv['verus_s'], 2),
                                                    'functions': [[f[0], f[1], f[2]] for f in vv['functions'] if '__vacuity_canary' not in f[0]],
                                                    'rewrites': summarize_rewrites(vv['log'].rewrites)}
            elif kr['failures']:
                extra_cov['versions_base_verus'] = {'status': 'failed (violation demonstrated by the bounded run)', 'failures': [f['obligation'] for f in vv['failures']]}
            else:
                # the proof rests on ghost hints specific to the current algorithm: without a failing input in the bounded
                # domain (every n <= 16/21) a failed or unprocessable proof is "proof lost", not a demonstrated violation
                out.proof_lost.append('versions_base: the unbounded Verus proof no longer goes through (%s) and the bounded exhaustive run found no failing '
                                        'assignment: proof lost, no violation demonstrated.\n%s' % (
                                            vv['inconclusive'] or [f['obligation'] for f in vv['failures']],
                                            '\n'.join(f['verifier_output'][:800] for f in vv['failures'][:2])))
        except (common.Inconclusive, LostAnchor) as ex:
            out.inconclusive.append('versions_base kernel: %s' % ex)
    if pid == 'C04':
        from . import unit_agg, prop_agg
        try:
            au = unit_agg.run_unit(tier, only_prefix=('not_', 'count_', 'min_max_', 'sum_', 'mean_'))
            out.inconclusive += au['inconclusive']
            prop_agg.report_failures(out, au, 'aggcheck')
            extra_cov['aggregators_min_max_sum_count_mean_not'] = {
                'kani': {h: au['kani']['results'].get(h, {}).get('status') for h in au['kani']['harnesses']},
                'native': {h: {'evaluated': r['evaluated'], 'domain': r['domain']} for h, r in au['native'].items()}}
        except (common.Inconclusive, LostAnchor) as ex:
            out.inconclusive.append('aggregator unit: %s' % ex)

    log = v['log']
    vfuncs = [f for f in v['functions'] if f[0] and '__vacuity_canary' not in f[0]]

    def fn_relevant(fname):
        # verus function names look like index_unit::impl&%3::index_insert or std::collections::...::index_insert
        short = fname.split('::')[-1]
        conts = [r['container'] for r in log.real_fns if r['fn'] == short]
        if not conts:
            return pid == 'C19' or (pid == 'C05' and 'hashbrown' in fname) or (pid == 'C01' and 'hashbrown' in fname)
        return any(relevant_verus(pid, c, short) for c in conts)
    sel = [f for f in vfuncs if fn_relevant(f[0])]
    v_ok = sum(1 for f in sel if f[2])
    k_sel = k['harnesses']
    k_ok = sum(1 for h in k_sel if k['results'].get(h, {}).get('status') == 'SUCCESSFUL')
    n_sel = {h: r for h, r in n['results'].items() if relevant_native(pid, h)}
    real_sel = [r for r in log.real_fns if relevant_verus(pid, r['container'] if r['container'] else 'fn', r['fn'])]
    vv_n = vv_ok = 0
    if versions_verus is not None:
        vvf = [f for f in versions_verus['functions'] if '__vacuity_canary' not in f[0]]
        vv_n = len(vvf)
        vv_ok = sum(1 for f in vvf if f[2]) if versions_verus['status'] == 'ok' else 0
    out.coverage = dict({
        'obligations': len(sel) + len(k_sel) + vv_n,
        'discharged': v_ok + k_ok + vv_ok,
        'checker_cmd': 'verus %s --output-json --time-expanded%s' % (v['path'], ('  &&  cargo kani --harness combined_view (in %s)' % unit['crate']) if k_sel else ''),
        'trusted_base': TRUSTED,
        'explanation': 'obligation = one Verus function of the index unit (all its requires/ensures/loop-invariant/termination queries) that this property depends on'
                       + (', plus the loop-free Kani harnesses of the combined view and of the &mut T / &T forwarding impls (against arbitrary implementors)' if k_sel else '')
                       + '. Abstract views: hash-vector index = Map<K, Seq<V>> up to per-key concatenation order; full index = Map<K,V>; lattice index = Map<K, Set<V>>. '
                       'The native contract enumerator is a bounded search aid / stand-in and is not counted.',
        'backends': {
            'verus': {'functions_verified': v_ok, 'functions_total': len(sel), 'real_functions_under_contract': len(real_sel),
                      'solver_wall_s': round(v['verus_s'], 2), 'expand_s': round(v['expand_s'], 2), 'vacuity_canary_failed_as_required': v['canary_ok']},
            'kani': {h: {'status': k['results'].get(h, {}).get('status'), 'solver_s': k['results'].get(h, {}).get('time'),
                         'cbmc_checks': k['results'].get(h, {}).get('checks')} for h in k_sel},
        },
        'bounded_native_contract_enumeration_not_counted': {h: {'evaluated': r['evaluated'], 'domain': r['domain'], 'failures': len(r['failures'])}
                                                           for h, r in n_sel.items()},
        'functions_under_contract': sorted(set('%s::%s %s :: %s' % (f['crate'], f['mod'], f['container'], f['fn']) for f in real_sel)),
        'not_under_contract': [
            'RelIndexReadAll::iter_all of every type (iterator adapter with fn-pointer cast: outside Verus; compared with the reference multimap only in the native enumerator)',
            'RelIndexCombined::iter_all',
            'all concurrent types: CRelIndex, CRelFullIndex, CLatIndex, CRelNoIndex, c_rel_index_combined, freeze/unfreeze and every concurrent-insert clause (no thread support in Kani; Verus would need the code rewritten)',
            'the par-only forwarding impls (CRelIndexRead / CRelIndexReadAll / CRelIndexWrite / CRelFullIndexWrite for &T)',
        ],
        'assumption_scan': v['assumption_scan'],
        'rewrites_applied': summarize_rewrites(log.rewrites),
        'samples': [
            {'verus_obligation': 'impl<K:Eq + Hash,V>RelIndexMerge for RelIndexType1<K,V> :: move_index_contents :: ensures Self::im_merged(*old(from), *old(to), *final(to))'},
            {'verus_obligation': 'trait RelIndexMerge :: merge_delta_to_total_new_to_delta :: ensures *final(delta) == *old(new)'},
            {'native': 'type1_move_le3 bytes [2, 0,1, 1,0, _,_, 1, 0,0, ...] = from {0:[1],1:[0]} to {0:[0]} -> to {0:[0,1],1:[0]}, from {}'},
        ] + [{'verus_function': f[0], 'mode': f[1], 'micros': f[3]} for f in sel[:3]],
    }, **extra_cov)
    if tier == 'thorough' and not out.violations:
        out.coverage['proof_stability_under_smt_seeds'] = {'index_unit.rs': common.stability_sweep(v['path'])} if v['path'] else {}
    out.assumptions = list(TRUSTED) + ['Verus assumption scan: %d trusted declarations (listed under coverage.assumption_scan)' % len(v['assumption_scan'])]
    if pid in PARTIAL_NOTE:
        out.assumptions.append(PARTIAL_NOTE[pid])
    if pid == 'C19':
        out.assumptions.append('C19 is PROVED for the SERIAL types only. The concurrent counterparts (CRelIndex, CRelFullIndex, CLatIndex, CRelNoIndex), freeze/unfreeze and '
                               'racing insert-if-absent have only a BOUNDED stand-in: the same contracts in executable form over the real types, every operation sequence of the '
                               'stated small shape run sequentially plus a fixed number of sampled 4-thread schedules (schedules are sampled, not enumerated; nothing of it is counted as proved)')
    if pid == 'C01':
        out.assumptions.append('versions_base: proved by Verus for EVERY n on the function extracted verbatim from ascent_macro/src/ascent_mir.rs with rewrite R9 '
                               '(`for v in &mut res` -> `for v in res.iter_mut()`), a spliced loop invariant and ghost statements (R7: snapshot before the loop, '
                               'lemma call after the final push); the bounded exhaustive run (n <= 16/21) is kept as cross-check and failing-input source')
    return out.finish()


def summarize_rewrites(rw):
    d = {}
    ex = {}
    for r in rw:
        d[r['rule']] = d.get(r['rule'], 0) + 1
        ex.setdefault(r['rule'], r['where'] + ' :: ' + r['detail'][:100])
    return {'counts': d, 'examples': ex}
