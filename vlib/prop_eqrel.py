"""C10 (PARTIAL): the union-find behind the eqrel provider represents exactly the equivalence closure of the pairs added
(Verus, unbounded); the delta/total protocol of the binary provider is a bounded native stand-in."""
import time
from concurrent.futures import ThreadPoolExecutor

from . import common, kani, unit_eqrel, unit_uf, unit_index
from .extract import LostAnchor
from .prop_index import summarize_rewrites
from .report import Outcome

TRUSTED = [
    'Verus 0.2026.09.13 + Z3 (vstd specifications of Vec, HashMap, HashSet, Option)',
    'hashbrown::{HashMap, HashSet} modelled by std::collections::{HashMap, HashSet}; rustc_hash::FxHasher by a stand-in type',
    'assumed contracts (listed under coverage.assumption_scan): <HashSet as Extend>::extend, core::mem::take, Option::is_some_and, '
    'HashSet::from_iter over an array (two axioms), HashSet::default() is empty, BuildHasherDefault<FxHasher> builds valid hashers',
    'hypotheses on the element type T stated as preconditions: vstd obeys_key_model::<T>() and "T::clone returns an equal value"',
]


def native_plan(tier):
    bin_dom = 'every sequence of <= %d events {derive (a, b) over 4 items, end of iteration, end of stratum} + a closing stratum end, binary provider'
    ter_dom = 'every sequence of <= %d events {derive (k, a, b) over 2 keys x 3 items, end of iteration, end of stratum} + a closing stratum end, ternary provider'
    dir_dom = 'the union-find alone (index_insert = EqRel::add on `combined`): every history of <= 5 add(a, b) over the 30 ordered pairs a != b of 6 items; contains_key on all 36 pairs, the [0] lookup of every element and count_exact after every add'
    direct = ('eqrel_direct_le5', ';'.join(['0-30'] * 5), dir_dom)
    ter3_dom = ter_dom.replace('2 keys', '3 keys')
    if tier == 'thorough':
        return [('eqrel_direct_le6', ';'.join(['0-30'] * 6), dir_dom.replace('<= 5', '<= 6')), ('eqrel_protocol_le6', ';'.join(['0-18'] * 6), bin_dom % 6),
                ('eqrel_ternary_protocol_le6', ';'.join(['0-20'] * 6), ter_dom % 6), ('eqrel_ternary_protocol_k3_le5', ';'.join(['0-29'] * 5), ter3_dom % 5)]
    return [direct, ('eqrel_protocol_le4', ';'.join(['0-18'] * 4), bin_dom % 4), ('eqrel_ternary_protocol_le4', ';'.join(['0-20'] * 4), ter_dom % 4),
            ('eqrel_ternary_protocol_k3_le4', ';'.join(['0-29'] * 4), ter3_dom % 4)]


def run(pid, tier):
    out = Outcome(pid, tier, 'proof')
    t0 = time.time()
    native = {}
    native_failures = []
    binary = None
    with ThreadPoolExecutor(max_workers=2) as ex:
        fv = ex.submit(unit_eqrel.run_verus_part)
        try:
            crate, _ = unit_uf.prepare_crate()
            binary, _ = kani.build_native(crate, 'ufcheck')
            def one(p):
                to = 300 if tier == 'quick' else 7200
                if tier == 'thorough':
                    return p, kani.native_exhaust_sharded(binary, p[0], p[1], shards=16, timeout=to)
                if p[0].startswith('eqrel_direct'):
                    return p, kani.native_exhaust_sharded(binary, p[0], p[1], shards=10, timeout=to)
                return p, kani.native_exhaust(binary, p[0], p[1], timeout=to)
            with ThreadPoolExecutor(max_workers=4 if tier == 'quick' else 1) as ex2:
                for (h, alpha, dom), r in ex2.map(one, native_plan(tier)):
                    native[h] = dict(r, domain=dom)
                    for f in r['failures']:
                        native_failures.append({'harness': h, 'obligation': f['obligation'], 'input': f['input']})
        except (common.Inconclusive, LostAnchor) as exn:
            out.inconclusive.append('native eqrel protocol companion could not run: %s' % str(exn)[-1500:])
        v = fv.result()
    natives_ran_clean = bool(native) and not native_failures and not out.inconclusive
    # ---- native failures: failing inputs on the real code
    for nf in native_failures:
        rp = kani.native_replay(binary, nf['harness'], nf['input'])
        out.violation('native::%s::%s' % (nf['harness'], nf['obligation']), 'bounded native execution of the real eqrel provider',
                      'obligation %s failed for input bytes %s' % (nf['obligation'], nf['input']),
                      failing_input={'crate': 'ufcheck', 'harness': nf['harness'], 'bytes': nf['input'], 'failed_on_real_code': rp['failed']},
                      replay_transcript=rp['stdout'])
    # ---- Verus
    if v['status'] == 'inconclusive':
        msg = 'verus could not process the eqrel unit (%s)' % (v['inconclusive'] or '').strip().split('\n')[0][:300]
        if natives_ran_clean:
            out.proof_lost.append(msg + ': the proof of EqRel is unavailable on this tree; the bounded protocol companion passed')
        elif not native_failures:
            out.inconclusive.append(msg + '\n' + (v['inconclusive'] or ''))
    for dg in v.get('degraded') or []:
        msg = 'the proof annotations of %s no longer fit the code (%s): its contract is ASSUMED in this run, the other functions are still verified against it' % (dg['fn'], dg['why'][:200])
        if natives_ran_clean:
            out.proof_lost.append(msg + '; the bounded protocol companion passed')
        elif not native_failures:
            out.inconclusive.append(msg)
    for f in v['failures']:
        if native_failures:
            # the demonstrated failing input is the report; the lost obligation is attached to it
            out.notes.append('verus: %s' % f['obligation'])
            continue
        if natives_ran_clean:
            out.proof_lost.append('verus could not prove %s; the bounded protocol companion (every event sequence of the stated length over 4 items, all index views) '
                                  'found no failing input: proof lost, no violation demonstrated.\n%s' % (f['obligation'], f['verifier_output'][:1500]))
        else:
            out.violation(f['obligation'], 'verus', f['verifier_output'])
    funcs = [f for f in v['functions'] if f[0] and '__vacuity_canary' not in f[0]]
    ok = sum(1 for f in funcs if f[2])
    log = v['log']
    body = open(v['path']).read() if v.get('path') else ''
    out.coverage = {
        'obligations': len(funcs),
        'discharged': ok if v['status'] == 'ok' else sum(1 for f in funcs if f[2]),
        'checker_cmd': 'verus %s --output-json --time-expanded  ;  ufcheck exhaust eqrel_protocol_le4 <alphabets>' % v.get('path'),
        'trusted_base': TRUSTED,
        'explanation': 'obligation = one Verus function of the eqrel unit. The functions of ascent_byods_rels::union_find::EqRel and utils::merge_sets are extracted from the '
                       'source files on every run and verified against: representation invariant wf (acyclic subsumption forest witnessed by a rank function, elements stored '
                       'in the set of the root of their class id, sets of subsumed ids empty); abstract view related(a, b); add(x, y) yields EXACTLY the old relation plus '
                       '(class of x + class of y + {x, y}) squared, returns true iff x and y were unrelated, and keeps wf - for every history, unbounded; lemma_add_is_least '
                       'shows this is the least equivalence containing the old relation and (x, y); contains(x, y) == related(x, y); elem_set / get_dominant_id return the root; '
                       'get_dominant_id_update / elem_set_update (path compression) change no root; merge_sets is set union; set_of is Some exactly for known elements; '
                       'EqRelIndCommon::added_contains decides "in combined and not in old" (the reading of a delta version); '
                       'termination of the two recursive functions is proved from the rank. The delta/total protocol on top (eqrel_ind.rs) is only a bounded native stand-in.',
        'backends': {'verus': {'functions_verified': ok, 'functions_total': len(funcs), 'solver_wall_s': round(v.get('verus_s', 0.0), 2),
                               'real_functions_under_contract': [r['fn'] for r in log.real_fns] if log else [],
                               'vacuity_canary_failed_as_required': v.get('canary_ok', False)}},
        'functions_under_contract': [('ascent_byods_rels::eqrel_ind::EqRelIndCommon::%s' if 'EqRelIndCommon' in r['container'] else 'ascent_byods_rels::union_find::EqRel::%s') % r['fn'] if r['container']
                                     else 'ascent_byods_rels::utils::%s' % r['fn'] for r in (log.real_fns if log else [])],
        'not_under_contract': ['EqRel::{combine, iter_all, count_exact, set_of_inc_x, c_set_of, c_iter_all} (iterator adapters / hash-set IntoIter: outside this Verus; '
                               'exercised by the bounded native companion through merge and the index views)',
                               'everything in eqrel_ind.rs, eqrel_ternary.rs, ceqrel_ind.rs (Rc::make_mut / get_mut, Box<dyn Iterator>, fn-pointer iterator types): bounded native '
                               'companion for the binary serial provider only; ternary and parallel providers not covered',
                               'the code the macro generates around the provider'],
        'rewrites_applied': summarize_rewrites(log.rewrites) if log else {},
        'dropped_functions': log.dropped if log else [],
        'contracts_assumed_in_this_run_because_annotations_lost': [d['fn'] for d in (v.get('degraded') or [])],
        'assumption_scan': unit_index.scan_assumptions(body),
        'bounded_native_companion_not_counted': {h: {'evaluated': r['evaluated'], 'domain': r['domain'], 'failures': len(r['failures'])} for h, r in native.items()},
        'verus_functions': [[f[0], f[1], f[2]] for f in funcs],
        'samples': [{'contract': 'add: final(self).related(a, b) <==> old(self).related(a, b) || (old(self).joins(a, x, y) && old(self).joins(b, x, y));  r == !old(self).related(x, y)'},
                    {'native': 'eqrel_protocol_le4 bytes [2, 17, 7, 17]: derive (0,1); end of iteration; derive (1,2); end of iteration; + 2 closing iterations'}],
    }
    out.assumptions = TRUSTED + [
        'C10 PARTIAL: proved (unbounded) is the union-find EqRel only; the old/combined bookkeeping of EqRelIndCommon, its index views and merge are checked by a BOUNDED '
        'native enumeration (<= 4 / 5 events over 4 items) of the binary serial provider; ternary (eqrel_ternary.rs) and parallel (ceqrel_ind.rs) providers and the generated '
        'code are not covered',
        'machine arithmetic: sets.len() < usize::MAX is a precondition of add',
    ]
    if tier == 'thorough' and v.get('path') and v['status'] == 'ok':
        import os
        out.coverage['proof_stability_under_smt_seeds'] = {os.path.basename(v['path']): common.stability_sweep(v['path'], seeds=(1, 2, 3, 4, 5))}
    return out.finish()
