"""Splices contracts (templates under /verif/contracts) around real code extracted from the
rustc-expanded crates.  Function bodies are copied verbatim except for the logged rewrite rules:

  R1  by-value `mut self` receiver  ->  `self` + `let mut self_ = self;` + self -> self_ in the body
  R2  `x |= e;` / `x &= e;`          ->  `{ let t_ = e; x = x || t_; }` (resp. &&), e evaluated once, first
  R3  attributes dropped (#[inline], #[allow], doc comments); derive-generated impls are replaced by
      `#[derive]` of the subset Verus understands (Clone, Copy, PartialEq, Eq) on the copied type
  R5  `super::` / `crate::` path prefixes dropped (everything is spliced into one flat module)
  R10 reference patterns in match arms, `Some(&x) => {`  ->  `Some(x_r_) => { let x = *x_r_;` (Verus has no ref patterns; same value)
  R12 a statement under `#[cfg(debug_assertions)]` (debug-build self-check) is dropped, unverified
  R11 a closure is given parameter types, a named result and requires/ensures from the template, and its body is wrapped in
      braces: `|id| e`  ->  `|id: &usize| -> (r: usize) ensures .. { e }` (ghost annotation; the body text is unchanged)
  (R4, the timing-statistics statements, is applied by the index unit only and logged there.)

Template directives (lines starting with //@):

  //@impl  <crate> <mod> | <impl header>          ... additions ... //@end
  //@trait <crate> <mod> | <TraitName>            ... additions, //@fn <name> | <binder> + clauses ... //@end
  //@fn    <crate> <mod> | <fn name> | <binder>   ... requires/ensures/decreases,  //@loop <n> + invariants ... //@end
  //@type  <crate> <mod> | <TypeName>             (copy struct/enum, derives reconstructed)
  //@drop  <fnname> [<fnname>...]                 (inside //@impl: real fns deliberately not copied; logged)
"""
import re
from .extract import Source, LostAnchor, sub_items, fn_parts, norm, scan, match_close

VERUS_DERIVES = ['Clone', 'Copy', 'PartialEq', 'Eq']


class Log:
    def __init__(self):
        self.rewrites = []  # (rule, where, detail)
        self.real_fns = []  # (unit-level name, crate, mod, container header, fn name)
        self.dropped = []
        self.external = []  # real fns emitted as #[verifier::external_body]: contract ASSUMED in Verus
        self.types = []

    def rw(self, rule, where, detail=''):
        self.rewrites.append({'rule': rule, 'where': where, 'detail': detail})


def strip_attrs_in_body(body, log, where):
    def repl(m):
        log.rw('R3', where, m.group(0))
        return ''
    body = re.sub(r'#\[(allow|inline|rustc_\w+|doc|coverage)\b[^\]]*\]\s*', repl, body)
    return body


def rewrite_or_assign(body, log, where):
    # x |= e;  -> { let t_ = e; x = x || t_; }
    out = []
    i = 0
    pat = re.compile(r'([A-Za-z_][\w\.]*)\s*(\|=|&=)\s*')
    while True:
        m = pat.search(body, i)
        if not m:
            out.append(body[i:])
            break
        # find end of statement (';' at depth 0)
        depth = 0
        endp = None
        for p, c in scan(body, m.end()):
            if c in '([{':
                depth += 1
            elif c in ')]}':
                depth -= 1
            elif c == ';' and depth == 0:
                endp = p
                break
        if endp is None:
            out.append(body[i:])
            break
        lhs = m.group(1)
        op = '||' if m.group(2) == '|=' else '&&'
        e = body[m.end():endp]
        out.append(body[i:m.start()])
        out.append('{ let t_ = %s; %s = %s %s t_; }' % (e, lhs, lhs, op))
        log.rw('R2', where, '%s %s %s' % (lhs, m.group(2), e.strip()))
        i = endp + 1
    return ''.join(out)


R4_PATTERNS = [
    r'let\s+before\s*=\s*Instant::now\(\)\s*;',
    r'unsafe\s*\{\s*[A-Z_]+\s*\+=\s*before\.elapsed\(\)\s*;\s*\}',
    # process-wide statistics counters (`static mut` in ALL CAPS, only ever incremented): `unsafe { DEPTH_COUNT += 1; DEPTH_SUM += depth; }`
    r'unsafe\s*\{\s*(?:[A-Z][A-Z_0-9]*\s*\+=\s*[^;{}]+;\s*)+\}',
]


def drop_timing_statistics(body, log, where):
    """R4: `let before = Instant::now();` / `unsafe { STATIC += before.elapsed(); }` write only process-wide timing
    counters (static mut, never read by any relation); they are outside Verus and are dropped, unverified."""
    for pat in R4_PATTERNS:
        def repl(m):
            log.rw('R4', where, re.sub(r'\s+', ' ', m.group(0)))
            return ''
        body = re.sub(pat, repl, body)
    return body


def rewrite_for_mut_ref(body, log, where):
    """R9: `for PAT in &mut X {` -> `for PAT in X.iter_mut() {` (IntoIterator for &mut Vec<T> / &mut [T] IS iter_mut();
    this Verus version specifies only the latter)."""
    def repl(m):
        log.rw('R9', where, m.group(0))
        return 'for %s in %s.iter_mut() {' % (m.group(1), m.group(2))
    return re.sub(r'for\s+([\w\(\), ]+?)\s+in\s+&mut\s+(\w+)\s*\{', repl, body)


def drop_path_prefixes(text, log, where):
    def repl(m):
        log.rw('R5', where, m.group(0))
        return ''
    return re.sub(r'\b(super|crate)::', repl, text)


def drop_debug_only_statements(body, log, where):
    """R12: a statement under `#[cfg(debug_assertions)]` (a self-check compiled only into debug builds) is dropped, unverified."""
    def repl(m):
        log.rw('R12', where, re.sub(r'\s+', ' ', m.group(0)))
        return ''
    return re.sub(r'#\[cfg\(debug_assertions\)\]\s*[^;{}]*;', repl, body)


def rewrite_ref_patterns(body, log, where):
    """R10: `Some(&x) => {` -> `Some(x_r_) => { let x = *x_r_;`"""
    def repl(m):
        log.rw('R10', where, re.sub(r'\s+', ' ', m.group(0)))
        return 'Some(%s_r_) => { let %s = *%s_r_;' % (m.group(1), m.group(1), m.group(1))
    return re.sub(r'Some\(\s*&\s*(\w+)\s*\)\s*=>\s*\{', repl, body)


def find_closures(body):
    """[(start of `|`, end of params `|` (exclusive), body start, body end (exclusive), is_block)] in textual order"""
    valid = dict(scan(body, 0))
    res = []
    i = 0
    n = len(body)
    while i < n:
        if i not in valid or body[i] != '|':
            i += 1
            continue
        # a closure starts after `(`, `,`, `=`, `move` or at the start of an expression statement
        k = i - 1
        while k >= 0 and body[k].isspace():
            k -= 1
        prev = body[k] if k >= 0 else ';'
        is_move = body[max(0, k - 3):k + 1] == 'move'
        if not (prev in '(,=;{' or is_move):
            i += 1
            continue
        # parameter list
        if body.startswith('||', i):
            pend = i + 2
        else:
            j = i + 1
            while j < n and not (j in valid and body[j] == '|'):
                j += 1
            if j >= n:
                break
            pend = j + 1
        b = pend
        while b < n and body[b].isspace():
            b += 1
        if b < n and body[b] == '{':
            e = match_close(body, b) + 1
            res.append((i, pend, b, e, True))
        else:
            depth = 0
            e = n
            for p, c in scan(body, b):
                if c in '([{':
                    depth += 1
                elif c in ')]}':
                    if depth == 0:
                        e = p
                        break
                    depth -= 1
                elif c in ',;' and depth == 0:
                    e = p
                    break
            res.append((i, pend, b, e, False))
        i = pend
    return res


def annotate_closures(body, closures, log, where):
    """R11; closures: {ordinal: {'params': str, 'ret': str, 'clauses': str}}"""
    found = find_closures(body)
    missing = [k for k in closures if k < 1 or k > len(found)]
    if missing:
        raise LostAnchor('%s: closure ordinals %s not present (function has %d closures)' % (where, sorted(missing), len(found)))
    for k in sorted(closures, reverse=True):
        st, pend, b, e, is_block = found[k - 1]
        c = closures[k]
        inner = body[b:e] if is_block else '{ ' + body[b:e].strip() + ' }'
        new = '|%s| -> (%s)\n%s\n%s' % (c['params'], c['ret'], c['clauses'].rstrip(), inner)
        log.rw('R11', where, 'closure %d: %s' % (k, re.sub(r'\s+', ' ', body[st:pend])))
        body = body[:st] + new + body[e:]
    return body


def render_fn(fn_item, contract, log, where, in_trait_decl=False):
    """contract: dict(binder=str|None, clauses=str, loops={n: text}) or None."""
    sig, ret, wherec, body = fn_parts(fn_item)
    sig = drop_path_prefixes(sig, log, where)
    if ret is not None:
        ret = drop_path_prefixes(ret, log, where)
    vis = ''
    pre = None
    # R1
    m = re.search(r'\(\s*mut\s+self\b', sig)
    if m:
        sig = sig[:m.start()] + '(self' + sig[m.end():]
        log.rw('R1', where, 'mut self receiver')
        pre = 'let mut self_ = self;'
    out = sig
    if ret is not None:
        if contract and contract.get('binder'):
            out += ' -> (%s: %s)' % (contract['binder'], ret)
        else:
            out += ' -> ' + ret
    if wherec:
        out += ' ' + wherec
    if contract and contract.get('clauses', '').strip():
        out += '\n' + contract['clauses'].rstrip() + '\n'
    if body is None:
        return out + ';'
    b = drop_debug_only_statements(body, log, where)
    b = strip_attrs_in_body(b, log, where)
    b = drop_timing_statistics(b, log, where)
    b = rewrite_or_assign(b, log, where)
    b = rewrite_for_mut_ref(b, log, where)
    b = rewrite_ref_patterns(b, log, where)
    b = drop_path_prefixes(b, log, where)
    if contract and contract.get('closures'):
        b = annotate_closures(b, contract['closures'], log, where)
    if pre:
        b = re.sub(r'\bself\b', 'self_', b)
        b = ' ' + pre + b
    if contract and (contract.get('loops') or contract.get('ghost')):
        b = insert_loop_invariants(b, contract.get('loops') or {}, where, contract.get('ghost') or [], log)
    return out + ' {' + b + '}'


def insert_loop_invariants(body, loops, where, ghost=(), log=None):
    """loops: {ordinal(1-based): clause text}. Loop headers are `for .. in .. {`, `while .. {`, `loop {`
    in textual order.  ghost: [(anchor, n, text)] ghost-only statements (R7) inserted at `start` of the body,
    `before-loop n`, `after-loop n` or at the start of the body of loop n (`loop-body n`)."""
    heads = []
    for m in re.finditer(r'\b(for|while|loop)\b', body):
        # confirm not inside string/comment: cheap check via scan positions
        heads.append(m.start())
    valid = set(p for p, c in scan(body, 0))
    heads = [h for h in heads if h in valid]
    # find the '{' that opens each loop body: first '{' at paren depth 0 after the keyword that is not
    # part of a struct literal -- for the code under contract this simple rule is sufficient and a
    # mismatch only makes Verus report a syntax error (exit 2), never a false verdict.
    inserts = []
    ghost_by_loop = {}
    for anchor, gn, text in ghost:
        if anchor == 'start':
            inserts.append((0, '\n' + text.rstrip() + '\n'))
            if log is not None:
                log.rw('R7', where, 'ghost statements at function start')
        elif anchor == 'after-text':
            # anchored on a statement of the real body (whitespace-insensitive); not found => lost anchor (exit 2)
            pat = r'\s*'.join(re.escape(tok) for tok in re.findall(r'\w+|[^\w\s]', gn))
            ms = list(re.finditer(pat, body))
            if len(ms) != 1:
                raise LostAnchor('%s: ghost anchor text %r found %d times' % (where, gn, len(ms)))
            inserts.append((ms[0].end(), '\n' + text.rstrip() + '\n'))
            if log is not None:
                log.rw('R7', where, 'ghost statements after `%s`' % gn)
        else:
            ghost_by_loop.setdefault(gn, []).append((anchor, text))
            if gn < 1 or gn > len(heads):
                raise LostAnchor('%s: ghost anchor %s %d: function has %d loops' % (where, anchor, gn, len(heads)))
    for n, h in enumerate(heads, 1):
        if n not in loops and n not in ghost_by_loop:
            continue
        depth = 0
        pos = None
        in_pos = None
        for p, c in scan(body, h):
            if c in '([':
                depth += 1
            elif c in ')]':
                depth -= 1
            elif c == '{' and depth == 0:
                pos = p
                break
            elif depth == 0 and in_pos is None and body.startswith('for', h) and re.match(r'\bin\b', body[p:p + 3]) and not (body[p - 1].isalnum() or body[p - 1] == '_'):
                in_pos = p
        if pos is None:
            raise LostAnchor('%s: loop %d has no body' % (where, n))
        for anchor, text in ghost_by_loop.get(n, []):
            if log is not None:
                log.rw('R7', where, 'ghost statements %s %d' % (anchor, n))
            if anchor == 'before-loop':
                inserts.append((h, '\n' + text.rstrip() + '\n'))
            elif anchor == 'loop-body':
                inserts.append((pos + 1, '\n' + text.rstrip() + '\n'))
            elif anchor == 'after-loop':
                close = match_close(body, pos)
                inserts.append((close + 1, '\n' + text.rstrip() + '\n'))
            else:
                raise ValueError('unknown ghost anchor ' + anchor)
        if n not in loops:
            continue
        inserts.append((pos, '\n' + loops[n].rstrip() + '\n'))
        if 'VERUS_it' in loops[n]:
            # R6: name the ghost iterator of a `for` loop (`for PAT in VERUS_it: EXPR`): ghost-only annotation
            if in_pos is None:
                raise LostAnchor('%s: loop %d is not a for loop but its invariant names the ghost iterator' % (where, n))
            inserts.append((in_pos + 2, ' VERUS_it:'))
    missing = set(loops) - set(range(1, len(heads) + 1))
    if missing:
        raise LostAnchor('%s: loop ordinals %s not present (function has %d loops)' % (where, sorted(missing), len(heads)))
    for pos, txt in sorted(inserts, reverse=True):
        body = body[:pos] + txt + body[pos:]
    return body


def parse_fn_contracts(lines):
    """Split addition lines into (plain additions, {fn name: contract})."""
    plain = []
    contracts = {}
    cur = None
    curloop = None
    drops = []
    externals = []
    for ln in lines:
        s = ln.strip()
        if s.startswith('//@fn '):
            parts = [p.strip() for p in s[len('//@fn '):].split('|')]
            cur = {'binder': parts[1] if len(parts) > 1 and parts[1] else None, 'clauses': '', 'loops': {}}
            contracts[parts[0]] = cur
            curloop = None
        elif s.startswith('//@loop '):
            curloop = int(s.split()[1])
            cur['loops'][curloop] = ''
        elif s.startswith('//@ghost '):
            parts = s.split()
            anchor = parts[1]
            if anchor == 'after-text':
                n = s.split(None, 2)[2]
            else:
                n = int(parts[2]) if len(parts) > 2 else 0
            cur.setdefault('ghost', []).append([anchor, n, ''])
            curloop = ('ghost', len(cur['ghost']) - 1)
        elif s.startswith('//@closure '):
            parts = [p.strip() for p in s[len('//@closure '):].split('|')]
            k = int(parts[0])
            cur.setdefault('closures', {})[k] = {'params': parts[1], 'ret': parts[2], 'clauses': ''}
            curloop = ('closure', k)
        elif s.startswith('//@drop '):
            drops += s.split()[1:]
        elif s.startswith('//@external '):
            externals += s.split()[1:]
        elif s.startswith('//@plain'):
            cur = None
            curloop = None
        elif cur is not None:
            if isinstance(curloop, tuple) and curloop[0] == 'closure':
                cur['closures'][curloop[1]]['clauses'] += ln + '\n'
            elif isinstance(curloop, tuple):
                cur['ghost'][curloop[1]][2] += ln + '\n'
            elif curloop is not None:
                cur['loops'][curloop] += ln + '\n'
            else:
                cur['clauses'] += ln + '\n'
        else:
            plain.append(ln)
    return plain, contracts, drops, externals


class Splicer:
    def __init__(self, sources, log=None, degrade=False):
        self.sources = sources  # {crate: Source}
        self.log = log or Log()
        # degrade=True: a function whose proof annotations (ghost anchors, loop ordinals, closure ordinals) no longer fit the
        # code is emitted with its contract ASSUMED (#[verifier::external_body]) instead of losing the whole unit; it is
        # recorded in log.proof_lost and reported as PROOF-LOST, never counted as verified
        self.degrade = degrade
        self.log.proof_lost = []

    def render_fn_or_degrade(self, sub, contract, w, **kw):
        try:
            return render_fn(sub, contract, self.log, w, **kw)
        except LostAnchor as ex:
            if not self.degrade or not contract:
                raise
            bare = {'binder': contract.get('binder'), 'clauses': contract.get('clauses', '')}
            self.log.proof_lost.append({'fn': w, 'why': str(ex)})
            # decreases clauses are not allowed on external_body functions
            bare['clauses'] = re.sub(r'\n\s*decreases[^\n]*', '', '\n' + bare['clauses'])
            return '#[verifier::external_body]\n' + render_fn(sub, bare, self.log, w, **kw)

    def src(self, crate):
        if crate not in self.sources:
            raise LostAnchor('crate %s not expanded' % crate)
        return self.sources[crate]

    def derive_list(self, crate, mod, tyname):
        found = []
        for it in self.src(crate).module(mod):
            if it.kind != 'impl' or not any('automatically_derived' in a for a in it.attrs):
                continue
            h = it.nheader
            m = re.search(r'::core::(?:cmp|clone|marker)::(\w+) for (\w+)', h)
            if m and m.group(2) == tyname and m.group(1) in VERUS_DERIVES:
                found.append(m.group(1))
        return [d for d in VERUS_DERIVES if d in found]

    def render(self, template):
        out = []
        lines = template.split('\n')
        i = 0
        while i < len(lines):
            ln = lines[i]
            s = ln.strip()
            if not s.startswith('//@'):
                out.append(ln)
                i += 1
                continue
            m = re.match(r'//@(\w+)\s+(.*)$', s)
            kind, rest = m.group(1), m.group(2)
            if kind == 'type':
                tparts = [p.strip() for p in rest.split('|')]
                loc, name = tparts[0], tparts[1]
                pubfields = 'pubfields' in tparts[2:]
                noderive = 'noderive' in tparts[2:]
                crate, mod = loc.split()
                mod = '' if mod == '-' else mod
                it = [x for x in self.src(crate).module(mod) if x.kind in ('struct', 'enum') and x.name == name]
                if len(it) != 1:
                    raise LostAnchor('type %s::%s::%s not found' % (crate, mod, name))
                it = it[0]
                ders = self.derive_list(crate, mod, name)
                if not ders:
                    # raw (unexpanded) source: the derive attribute is still on the item
                    for a in it.attrs:
                        md = re.match(r'#\[derive\((.*)\)\]', a.strip(), re.S)
                        if md:
                            ders = [d for d in VERUS_DERIVES if d in [x.strip() for x in md.group(1).split(',')]]
                self.log.rw('R3', '%s::%s::%s' % (crate, mod, name), 'derive impls -> #[derive(%s)]' % ', '.join(ders))
                self.log.types.append('%s::%s::%s' % (crate, mod, name))
                if ders and not noderive:
                    out.append('#[derive(%s)]' % ', '.join(ders))
                ttext = it.text if it.text.rstrip().endswith((';', '}')) else it.text + ';'
                if pubfields and '{' in ttext and 'pub(crate)' in ttext:
                    ttext = re.sub(r'pub\(crate\)\s+', 'pub ', ttext)
                    self.log.rw('R8', '%s::%s::%s' % (crate, mod, name), 'pub(crate) fields made pub in the verified copy')
                if pubfields:
                    # R8: private tuple-struct fields are made `pub` in the copy (visibility has no run-time meaning; Verus treats a
                    # type with private fields as opaque in public specifications)
                    close = ttext.rstrip().rstrip(';').rstrip()
                    if close.endswith(')'):
                        depth = 0
                        openp = None
                        for k in range(len(close) - 1, -1, -1):
                            if close[k] == ')':
                                depth += 1
                            elif close[k] == '(':
                                depth -= 1
                                if depth == 0:
                                    openp = k
                                    break
                        fields = []
                        cur = ''
                        d2 = 0
                        for ch in close[openp + 1:-1]:
                            if ch in '<([':
                                d2 += 1
                            elif ch in '>)]':
                                d2 -= 1
                            if ch == ',' and d2 == 0:
                                fields.append(cur)
                                cur = ''
                            else:
                                cur += ch
                        if cur.strip():
                            fields.append(cur)
                        fields = [f if f.strip().startswith('pub') else ' pub ' + f.strip() for f in fields]
                        ttext = close[:openp + 1] + ','.join(fields) + ');'
                        self.log.rw('R8', '%s::%s::%s' % (crate, mod, name), 'private fields made pub in the verified copy')
                out.append(ttext)
                i += 1
                continue
            if kind == 'alias':
                loc, name = [p.strip() for p in rest.split('|')]
                crate, mod = loc.split()
                mod = '' if mod == '-' else mod
                it = [x for x in self.src(crate).module(mod) if x.kind == 'type' and x.name == name]
                if len(it) != 1:
                    raise LostAnchor('type alias %s::%s::%s not found' % (crate, mod, name))
                txt = re.sub(r'^pub\(crate\)', 'pub', it[0].text.strip())
                out.append(txt)
                self.log.types.append('%s::%s::%s (alias)' % (crate, mod, name))
                i += 1
                continue
            # block directives: collect until //@end
            j = i + 1
            block = []
            while j < len(lines) and lines[j].strip() != '//@end':
                block.append(lines[j])
                j += 1
            if j >= len(lines):
                raise ValueError('unterminated directive: ' + s)
            parts = [p.strip() for p in rest.split('|')]
            crate, mod = parts[0].split()
            mod = '' if mod == '-' else mod
            if kind == 'impl':
                header = parts[1]
                it = self.src(crate).one(mod, header, kind='impl')
                plain, contracts, drops, externals = parse_fn_contracts(block)
                where = '%s::%s %s' % (crate, mod, norm(header))
                hdr = drop_path_prefixes(it.header.rstrip(), self.log, where)
                out.append(hdr + ' {')
                out += plain
                for sub in sub_items(it):
                    if sub.kind == 'fn':
                        if sub.name in drops:
                            self.log.dropped.append('%s :: fn %s' % (where, sub.name))
                            continue
                        w = where + ' :: fn ' + sub.name
                        if sub.name in externals:
                            out.append('#[verifier::external_body]')
                            self.log.external.append(w)
                        n_lost = len(self.log.proof_lost)
                        out.append(self.render_fn_or_degrade(sub, contracts.get(sub.name), w))
                        if sub.name not in externals and len(self.log.proof_lost) == n_lost:
                            self.log.real_fns.append({'crate': crate, 'mod': mod, 'container': norm(header), 'fn': sub.name})
                    elif sub.kind in ('type', 'const'):
                        out.append(drop_path_prefixes(sub.text, self.log, where))
                    else:
                        raise LostAnchor('%s: unexpected item kind %s in impl' % (where, sub.kind))
                unused = set(contracts) - set(x.name for x in sub_items(it))
                if unused:
                    raise LostAnchor('%s: contract for missing fn(s) %s' % (where, sorted(unused)))
                out.append('}')
            elif kind == 'trait':
                name = parts[1]
                it = self.src(crate).one(mod, kind='trait', name=name)
                plain, contracts, drops, externals = parse_fn_contracts(block)
                where = '%s::%s trait %s' % (crate, mod, name)
                out.append(drop_path_prefixes(it.header.rstrip(), self.log, where) + ' {')
                out += plain
                for sub in sub_items(it):
                    if sub.kind == 'fn':
                        if sub.name in drops:
                            self.log.dropped.append('%s :: fn %s' % (where, sub.name))
                            continue
                        w = where + ' :: fn ' + sub.name
                        out.append(render_fn(sub, contracts.get(sub.name), self.log, w, in_trait_decl=True))
                        if sub.body is not None:
                            self.log.real_fns.append({'crate': crate, 'mod': mod, 'container': 'trait ' + name, 'fn': sub.name})
                    elif sub.kind == 'type':
                        out.append(sub.text)
                    else:
                        raise LostAnchor('%s: unexpected item kind %s in trait' % (where, sub.kind))
                unused = set(contracts) - set(x.name for x in sub_items(it))
                if unused:
                    raise LostAnchor('%s: contract for missing fn(s) %s' % (where, sorted(unused)))
                out.append('}')
            elif kind == 'fn':
                name = parts[1]
                it = self.src(crate).one(mod, kind='fn', name=name)
                _, cs, _, _ = parse_fn_contracts(['//@fn %s | %s' % (name, parts[2] if len(parts) > 2 else '')] + block)
                c = cs[name]
                where = '%s::%s fn %s' % (crate, mod, name)
                n_lost = len(self.log.proof_lost)
                out.append(self.render_fn_or_degrade(it, c, where))
                if len(self.log.proof_lost) == n_lost:
                    self.log.real_fns.append({'crate': crate, 'mod': mod, 'container': '', 'fn': name})
            else:
                raise ValueError('unknown directive ' + kind)
            i = j + 1
        return '\n'.join(out)
