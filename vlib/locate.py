"""Maps line numbers of a generated Verus file back to (container, fn) so that a failed obligation can be
named by the function and clause it belongs to."""
import re
from .extract import parse_items, sub_items, norm


class Locator:
    def __init__(self, text, path=None):
        self.path = path
        self.text = text
        self.lines = text.split('\n')
        self.spans = []  # (start_line, end_line, container, fn, container_kind)
        m = re.search(r'verus!\s*\{', text)
        if not m:
            return
        base = m.end()
        body_end = text.rfind('}', 0, text.rfind('fn main'))
        body = text[base:body_end]

        def line_of(off):
            return text.count('\n', 0, off) + 1

        for it in parse_items(body):
            s0 = base + it.start
            e0 = base + it.end
            if it.kind in ('impl', 'trait'):
                # offsets of sub items relative to it.body
                body_off = base + it.start + (it.end - it.start - len(it.text)) + it.text.index('{') + 1
                for sub in sub_items(it):
                    if sub.kind == 'fn':
                        self.spans.append((line_of(body_off + sub.start), line_of(body_off + sub.end), norm(it.header), sub.name, it.kind))
            elif it.kind == 'fn':
                self.spans.append((line_of(s0), line_of(e0), '', it.name, 'fn'))

    def at(self, line):
        for s, e, c, f, k in self.spans:
            if s <= line <= e:
                return c, f, k
        return None

    def name_failure(self, fail):
        """fail: dict(kind, line, text) from classify_verus -> obligation name + clause text."""
        # gutter line numbers belong to the file named by the closest preceding `-->` / `:::` marker
        lines = []
        cur_file = None
        primary_in_unit = True
        for ln in fail['text'].split('\n'):
            m = re.match(r'\s*(?:-->|:::)\s*([^:\s]+):(\d+):(\d+)', ln)
            if m:
                cur_file = m.group(1)
                continue
            m = re.match(r'^\s*(\d+)\s*\|', ln)
            if m and (cur_file is None or self.path is None or cur_file.endswith(self.path.split('/')[-1])):
                lines.append(int(m.group(1)))
        if fail.get('file') and self.path and not fail['file'].endswith(self.path.split('/')[-1]):
            primary_in_unit = False
        if fail.get('line') and primary_in_unit:
            lines.insert(0, fail['line'])
        hits = [self.at(l) for l in lines]
        hits = [h for h in hits if h]
        impl_hits = [h for h in hits if h[2] in ('impl', 'fn')]
        pick = impl_hits[0] if impl_hits else (hits[0] if hits else ('?', '?', '?'))
        clause = ''
        if not primary_in_unit:
            clause = 'contract of the std trait method (vstd %s:%s)' % (fail.get('file'), fail.get('line'))
        elif fail.get('line') and 0 < fail['line'] <= len(self.lines):
            clause = self.lines[fail['line'] - 1].strip().rstrip(',')
        cont = pick[0] or 'fn'
        name = '%s :: %s :: %s :: %s' % (cont, pick[1], fail['kind'], clause)
        return name, pick, clause
