"""[E<=n] bounded stand-ins for versions_base (C01) and dedup_all_keep_last_by (C09): the functions are extracted
verbatim from the SOURCE files of ascent_macro (they use no crate-local macros; the rustc-expanded text cannot be used
because it replaces vec![..] by the unstable alloc::vec::from_elem)."""
import os
import re
import shutil
import time

from . import common, kani
from .common import REPO, Inconclusive, run
from .extract import Source, LostAnchor, parse_items


def extract_items():
    mir_path = os.path.join(REPO, 'ascent_macro', 'src', 'ascent_mir.rs')
    utils_path = os.path.join(REPO, 'ascent_macro', 'src', 'utils.rs')
    for p in (mir_path, utils_path):
        if not os.path.exists(p):
            raise LostAnchor('%s not found' % p)
    mir = Source(open(mir_path).read(), 'ascent_macro::ascent_mir')
    utils = Source(open(utils_path).read(), 'ascent_macro::utils')
    outer = mir.one('', kind='fn', name='compile_hir_rule_to_mir_rules')
    inner = [i for i in parse_items(outer.body) if i.kind == 'fn' and i.name == 'versions_base']
    if len(inner) != 1:
        raise LostAnchor('ascent_mir.rs: fn versions_base not found inside compile_hir_rule_to_mir_rules')
    enum = mir.one('', kind='enum', name='MirRelationVersion')
    dedup = utils.one('', kind='fn', name='dedup_all_keep_last_by')
    derives = [a for a in enum.attrs if a.startswith('#[derive')]
    enum_text = re.sub(r'^pub\(crate\)\s*', 'pub ', enum.text.strip())
    if not enum_text.startswith('pub'):
        enum_text = 'pub ' + enum_text
    vb = inner[0].text.strip()
    if not vb.startswith('pub'):
        vb = 'pub ' + vb
    text = ('// GENERATED on every run: copied verbatim from %s and %s (only `pub` added / pub(crate) widened).\n'
            '#![allow(dead_code, unused)]\n%s\n%s\n\n%s\n\n%s\n' % (mir_path, utils_path, '\n'.join(derives), enum_text, vb, dedup.text.strip()))
    return text, {'versions_base': inner[0].text, 'dedup_all_keep_last_by': dedup.text}


def run_versions_verus():
    """Unbounded Verus proof of the versions_base contract on the function extracted verbatim from the source file."""
    from contracts import kernels as tmpl
    from .splice import Splicer
    from .locate import Locator
    from .common import WORK, run_verus, classify_verus, verus_functions
    text, items = extract_items()
    # items only (drop the crate-level allow attribute line of the native extraction)
    body = '\n'.join(l for l in text.split('\n') if not l.startswith('#![') and not l.startswith('// GENERATED'))
    sp = Splicer({'ascent_macro_src': Source(body, 'ascent_macro_src')})
    out = sp.render(tmpl.template())
    path = os.path.join(WORK, 'units', 'kernels_unit.rs')
    os.makedirs(os.path.dirname(path), exist_ok=True)
    canary = '\nverus! {\nproof fn __vacuity_canary()\n    ensures false\n{\n}\n}\n'
    with open(path, 'w') as f:
        f.write(out + canary)
    res = run_verus(path, timeout=600)
    st, fails, why = classify_verus(res, canary='__vacuity_canary')
    loc = Locator(open(path).read(), path)
    r = {'path': path, 'log': sp.log, 'status': st, 'inconclusive': why if st == 'inconclusive' else None, 'failures': [],
         'functions': verus_functions(res), 'verus_s': res['wall_s']}
    if fails:
        from .common import confirm_failures_in_isolation
        fails, dropped, notes = confirm_failures_in_isolation(path, res, fails)
    for f in fails:
        name, pick, clause = loc.name_failure(f)
        r['failures'].append({'obligation': name, 'fn': pick[1], 'kind': f['kind'], 'verifier_output': f['text']})
    return r


def run_kernels(tier, which):
    """which: subset of {'versions','dedup'}"""
    text, items = extract_items()
    crate = kani.instantiate_plain('kernels')
    with open(os.path.join(crate, 'src', 'extracted.rs'), 'w') as f:
        f.write(text)
    binary, _ = kani.build_native(crate, 'kernels')
    out = {'items': items, 'results': {}, 'failures': []}
    plans = []
    if 'versions' in which:
        n = 16 if tier == 'quick' else 21
        plans.append(('versions', ['versions', str(n)], 'every n in 0..=%d and every assignment in {total,delta}^n with at least one delta' % n))
    if 'dedup' in which:
        ln, al = (7, 3) if tier == 'quick' else (9, 3)
        plans.append(('dedup', ['dedup', str(ln), str(al)], 'all vectors of length <= %d over {0..%d} x relations {==, same parity}' % (ln, al - 1)))
    if 'versions' in which:
        # beyond the exhaustive bound: one SMT query per n (is there an assignment with a delta that no returned vector admits?),
        # discharged by z3; a model is replayed natively against the real function
        nmax = 64 if tier == 'quick' else 128
        t0 = time.time()
        queries = 0
        for n in range(1, nmax + 1):
            rc, so, se, dt = run([binary, 'versions-dump', str(n)], timeout=600)
            if rc != 0:
                raise Inconclusive('kernels versions-dump %d failed: %s' % (n, se[-500:]))
            vecs = re.findall(r'^VEC (\w*)$', so, re.M)
            smt = ['(set-logic QF_UF)'] + ['(declare-const a%d Bool)' % j for j in range(n)]
            smt.append('(assert (or %s))' % ' '.join('a%d' % j for j in range(n)) if n > 1 else '(assert a0)')
            bad_len = [v for v in vecs if len(v) != n]
            for v in vecs:
                if len(v) != n or 'N' in v:
                    continue
                lits = [('(not a%d)' % j) if c == 'T' else ('a%d' % j) for j, c in enumerate(v) if c in 'TD']
                smt.append('(assert (not (and true %s)))' % ' '.join(lits))
            smt += ['(check-sat)', '(get-model)']
            rc, so2, se2, dt2 = run(['z3', '-in'], stdin='\n'.join(smt) + '\n', timeout=120)
            queries += 1
            first = so2.strip().split('\n')[0] if so2.strip() else ''
            if first == 'unsat' and not bad_len:
                continue
            if first == 'sat' or bad_len:
                if first == 'sat':
                    model = dict(re.findall(r'\(define-fun a(\d+) \(\) Bool\s+(true|false)\)', so2))
                    asg = ''.join('d' if model.get(str(j)) == 'true' else 't' for j in range(n))
                else:
                    asg = 'd' + 't' * (n - 1)
                rc3, so3, se3, dt3 = run([binary, 'versions-check', str(n), asg], timeout=120)
                if rc3 == 1:
                    out['failures'].append({'kernel': 'versions', 'obligation': 'versions_cover_every_assignment_with_a_delta',
                                            'input': 'n=%d assignment=%s (z3 model, replayed natively)' % (n, asg), 'cmd': '%s versions-check %d %s' % (binary, n, asg)})
                    break
                raise Inconclusive('z3 model for n=%d does not replay on the real function' % n)
            raise Inconclusive('z3 gave %r for n=%d: %s' % (first, n, se2[-300:]))
        out['results']['versions_smt'] = {'evaluated': queries, 'domain': 'one z3 query per n in 1..=%d over the vectors returned by the real function: no assignment with a delta is left unadmitted' % nmax,
                                          'time': time.time() - t0, 'failures': len(out['failures'])}
    for name, args, dom in plans:
        rc, so, se, dt = run([binary] + args, timeout=3600)
        m = re.search(r'EVALUATED (\d+)', so)
        if rc not in (0, 1) or not m:
            raise Inconclusive('kernels %s failed rc=%s\n%s\n%s' % (name, rc, so[-2000:], se[-2000:]))
        fails = re.findall(r'^FAILED (\S+) INPUT (.*)$', so, re.M)
        out['results'][name] = {'evaluated': int(m.group(1)), 'domain': dom, 'time': dt, 'failures': len(fails)}
        for ob, inp in fails:
            out['failures'].append({'kernel': name, 'obligation': ob, 'input': inp, 'cmd': ' '.join([binary] + args)})
    return out
