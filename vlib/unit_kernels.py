"""[E<=n] bounded stand-ins for versions_base (C01) and dedup_all_keep_last_by (C09): the functions are extracted
verbatim from the SOURCE files of ascent_macro (they use no crate-local macros; the rustc-expanded text cannot be used
because it replaces vec![..] by the unstable alloc::vec::from_elem)."""
import os
import re
import shutil
import time

from . import common, kani
from .common import REPO, Inconclusive, run
from .extract import Source, LostAnchor, parse_items


def extract_items():
    mir_path = os.path.join(REPO, 'ascent_macro', 'src', 'ascent_mir.rs')
    utils_path = os.path.join(REPO, 'ascent_macro', 'src', 'utils.rs')
    for p in (mir_path, utils_path):
        if not os.path.exists(p):
            raise LostAnchor('%s not found' % p)
    mir = Source(open(mir_path).read(), 'ascent_macro::ascent_mir')
    utils = Source(open(utils_path).read(), 'ascent_macro::utils')
    outer = mir.one('', kind='fn', name='compile_hir_rule_to_mir_rules')
    inner = [i for i in parse_items(outer.body) if i.kind == 'fn' and i.name == 'versions_base']
    if len(inner) != 1:
        raise LostAnchor('ascent_mir.rs: fn versions_base not found inside compile_hir_rule_to_mir_rules')
    enum = mir.one('', kind='enum', name='MirRelationVersion')
    dedup = utils.one('', kind='fn', name='dedup_all_keep_last_by')
    derives = [a for a in enum.attrs if a.startswith('#[derive')]
    enum_text = re.sub(r'^pub\(crate\)\s*', 'pub ', enum.text.strip())
    if not enum_text.startswith('pub'):
        enum_text = 'pub ' + enum_text
    vb = inner[0].text.strip()
    if not vb.startswith('pub'):
        vb = 'pub ' + vb
    text = ('// GENERATED on every run: copied verbatim from %s and %s (only `pub` added / pub(crate) widened).\n'
            '#![allow(dead_code, unused)]\n%s\n%s\n\n%s\n\n%s\n' % (mir_path, utils_path, '\n'.join(derives), enum_text, vb, dedup.text.strip()))
    return text, {'versions_base': inner[0].text, 'dedup_all_keep_last_by': dedup.text}


def run_kernels(tier, which):
    """which: subset of {'versions','dedup'}"""
    text, items = extract_items()
    crate = kani.instantiate_plain('kernels')
    with open(os.path.join(crate, 'src', 'extracted.rs'), 'w') as f:
        f.write(text)
    binary, _ = kani.build_native(crate, 'kernels')
    out = {'items': items, 'results': {}, 'failures': []}
    plans = []
    if 'versions' in which:
        n = 16 if tier == 'quick' else 21
        plans.append(('versions', ['versions', str(n)], 'every n in 0..=%d and every assignment in {total,delta}^n with at least one delta' % n))
    if 'dedup' in which:
        ln, al = (7, 3) if tier == 'quick' else (9, 3)
        plans.append(('dedup', ['dedup', str(ln), str(al)], 'all vectors of length <= %d over {0..%d} x relations {==, same parity}' % (ln, al - 1)))
    for name, args, dom in plans:
        rc, so, se, dt = run([binary] + args, timeout=3600)
        m = re.search(r'EVALUATED (\d+)', so)
        if rc not in (0, 1) or not m:
            raise Inconclusive('kernels %s failed rc=%s\n%s\n%s' % (name, rc, so[-2000:], se[-2000:]))
        fails = re.findall(r'^FAILED (\S+) INPUT (.*)$', so, re.M)
        out['results'][name] = {'evaluated': int(m.group(1)), 'domain': dom, 'time': dt, 'failures': len(fails)}
        for ob, inp in fails:
            out['failures'].append({'kernel': name, 'obligation': ob, 'input': inp, 'cmd': ' '.join([binary] + args)})
    return out
