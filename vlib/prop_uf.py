"""C18: the public union-find structures agree with a reference closure after any history (PARTIAL, see MANIFEST)."""
from . import common, kani, unit_uf, unit_trruf, unit_index
from .extract import LostAnchor
from .prop_agg import report_failures
from .report import Outcome

TRUSTED = [
    'Kani 0.68 + CBMC 6.11 (bit-precise machine integers, Cell and Vec as compiled)',
    'src/uf.rs of the harness crate is the real file plus one include! line (checked: every other byte identical)',
    'the harness-side invariant INV and the reference partition / reachability matrix are the mathematical definitions',
]


def run(pid, tier):
    out = Outcome(pid, tier, 'other')
    from concurrent.futures import ThreadPoolExecutor
    _ex = ThreadPoolExecutor(max_workers=1)
    _ftv = _ex.submit(unit_trruf.run_verus_part)
    try:
        unit = unit_uf.run_unit(tier)
    except (common.Inconclusive, LostAnchor) as ex:
        out.inconclusive.append('union-find unit could not be built/run: %s' % ex)
        out.coverage = {'explanation': 'unit did not run'}
        return out.finish()
    out.inconclusive += unit['inconclusive']
    k = unit['kani']
    kres = k['results']
    # the vacuity canary must fail (it is reachable exactly when the precondition INV is satisfiable)
    canary = kres.get(unit_uf.CANARY, {})
    canary_ok = canary.get('status') == 'FAILED' and any('vacuity_canary_must_fail' in f for f in canary.get('failed', []))
    if not canary_ok:
        out.inconclusive.append('vacuity canary harness %s did not fail as required (status %s): the precondition of the step harnesses '
                                'may be unsatisfiable' % (unit_uf.CANARY, canary.get('status')))
    k['failures'] = [f for f in k['failures'] if f['harness'] != unit_uf.CANARY]
    report_failures(out, unit, 'ufcheck', tool_limit_fallback=True)
    # ---- Verus: the subsumption forest of TrRelUnionFind (companion: the native trrel_uf histories)
    tv = _ftv.result()
    tr_native = [h for h in unit['native'] if h.startswith('trrel_uf_history')]
    tr_native_clean = bool(tr_native) and not any(nf['harness'].startswith('trrel_uf_history') for nf in unit['native_failures'])
    if tv['status'] == 'inconclusive':
        msg = 'verus could not process the TrRelUnionFind forest unit (%s)' % (tv['inconclusive'] or '').strip().split('\n')[0][:300]
        (out.proof_lost if tr_native_clean else out.inconclusive).append(msg + ('; the native histories of TrRelUnionFind passed' if tr_native_clean else ''))
    for dg in tv.get('degraded') or []:
        msg = 'the proof annotations of %s no longer fit the code (%s): its contract is ASSUMED in this run' % (dg['fn'], dg['why'][:200])
        (out.proof_lost if tr_native_clean else out.inconclusive).append(msg + ('; the native histories of TrRelUnionFind passed' if tr_native_clean else ''))
    for f in tv['failures']:
        if tr_native_clean:
            out.proof_lost.append('verus could not prove %s; the native histories of TrRelUnionFind (every add-history of the stated length over 4 items) found no failing input: '
                                  'proof lost, no violation demonstrated.\n%s' % (f['obligation'], f['verifier_output'][:1500]))
        elif not any(nf['harness'].startswith('trrel_uf_history') for nf in unit['native_failures']):
            out.violation(f['obligation'], 'verus', f['verifier_output'])
    tv_funcs = [f for f in tv['functions'] if f[0] and '__vacuity_canary' not in f[0]]
    tv_ok = sum(1 for f in tv_funcs if f[2])
    hs = [h for h in k['harnesses'] if h != unit_uf.CANARY]
    ok = [h for h in hs if kres.get(h, {}).get('status') == 'SUCCESSFUL']
    complete = [h for h in hs if h in unit_uf.KANI_COMPLETE]
    evals = sum(r['evaluated'] for r in unit['native'].values())
    out.coverage = {
        'explanation': 'Contracts on the REAL ascent_byods_rels::uf code (file copied verbatim each run + one include! line, because the state is private). '
                       'COMPLETE (loop-free Kani, every machine value of next/parent/rank): Elem::union and Elem::union_by_rank. '
                       'INDUCTIVE STEP, BOUNDED IN SIZE (Kani, every state of exactly n elements that satisfies the forest invariant INV, every argument): '
                       'Elems::find, UnionFind::union_internal, UnionFind::union, Elems::push and the Class iterator preserve INV and change the partition '
                       'exactly as specified; INV holds for the empty structure, so the partition answers are right after ANY history that creates at most n elements. '
                       'BOUNDED native: the same contracts over every INV state of exactly n elements (pruned enumeration), the HashMap front end '
                       '(add / find_item / union_add / union_add_clone / find / len / ok) and TrRelUnionFind (add, contains, iter_all, set_of, rev_set_of, count_exact, '
                       'both internal consistency asserts) over every history of a stated length, against a reference partition / reflexive transitive closure.',
        'obligations': len(hs) + len(tv_funcs),
        'discharged': len(ok) + tv_ok,
        'checker_cmd': 'cargo kani --harness <%s> (in %s); ufcheck exhaust <harness> <domain>' % (', '.join(k['harnesses']), unit['crate']),
        'trusted_base': TRUSTED,
        'extraction': unit['extraction'],
        'complete_obligations': {h: {'status': kres.get(h, {}).get('status'), 'solver_s': kres.get(h, {}).get('time'), 'cbmc_checks': kres.get(h, {}).get('checks')} for h in complete},
        'inductive_step_bounded_in_size_kani': {h: {'status': kres.get(h, {}).get('status'), 'solver_s': kres.get(h, {}).get('time'), 'cbmc_checks': kres.get(h, {}).get('checks')}
                                                for h in hs if h not in complete},
        'vacuity_canary_failed_as_required': canary_ok,
        'verus_trrel_union_find_forest': {
            'what': 'TrRelUnionFind (trrel_union_find.rs, extracted from the source file each run): class ids form an acyclic subsumption forest (rank witness); get_dominant_id and elem_set '
                    'return the root; get_dominant_id_mut_with_depth / get_dominant_id_mut / elem_set_update (path compression, stale elem_ids refreshed) change the class of no element; '
                    'the reported depth is the exact number of subsumption steps and cannot overflow (at most one step per subsumption); both recursions terminate; add_node_new / add_node give an '
                    'unknown element a fresh class of its own, report whether it was new, and keep the class of every known element; add_one_connection records exactly one class-level connection and keeps the '
                    'reverse connection map a mirror of the forward one. UNBOUNDED. '
                    'add / add_set_connection / merge_multiple and the queries over the connection closure are NOT under contract (bounded native histories only).',
            'functions_verified': tv_ok, 'functions_total': len(tv_funcs), 'solver_wall_s': round(tv.get('verus_s', 0.0), 2),
            'real_functions_under_contract': [r_['fn'] for r_ in tv['log'].real_fns] if tv.get('log') else [],
            'dropped_functions': tv['log'].dropped if tv.get('log') else [],
            'rewrites_applied': {r_['rule']: r_['detail'][:80] for r_ in tv['log'].rewrites} if tv.get('log') else {},
            'vacuity_canary_failed_as_required': tv.get('canary_ok', False),
            'assumption_scan': unit_index.scan_assumptions(open(tv['path']).read()) if tv.get('path') else []},
        'bounded_native_not_counted': {h: {'evaluated': r['evaluated'], 'domain': r['domain'], 'failures': len(r['failures'])} for h, r in unit['native'].items()},
        'evaluations': evals,
        'distinct_nontrivial': evals,
        'rule': 'native: every byte vector over the stated per-position alphabets that passes the generator requirements is one case (each visited once); '
                'the state sweep counts contract evaluations inside the harness (reported in the replay notes)',
        'exhaustive': True,
        'functions_under_contract': ['ascent_byods_rels::uf::elems::Elem::union', 'ascent_byods_rels::uf::elems::Elem::union_by_rank', 'ascent_byods_rels::uf::elems::Elems::find',
                                     'ascent_byods_rels::uf::elems::Elems::push', 'ascent_byods_rels::uf::elems::Class::next (iter_class, iter_class_unchecked)',
                                     'ascent_byods_rels::uf::UnionFind::union_internal', 'ascent_byods_rels::uf::UnionFind::union'],
        'functions_under_verus_contract': ['ascent_byods_rels::trrel_union_find::TrRelUnionFind::{get_dominant_id, get_dominant_id_mut_with_depth, get_dominant_id_mut, elem_set, elem_set_update, add_node_new, add_node, add_one_connection}'],
        'functions_bounded_only': ['UnionFind::{add, add_clone, find, find_item, union_add, union_add_clone, len, is_empty, ok}', 'Elems::{ok, iter_classes}',
                                   'TrRelUnionFind::{add, contains, iter_all, set_of, rev_set_of, count_exact, is_empty, assert_disjoint_invariant, assert_set_connections_dominant_sets}'],
        'samples': [
            {'kani_harness': 'union_internal_step_n3', 'asserts': ['union_keeps_invariant', 'union_result_is_root_of_both', 'union_merges_exactly_the_two_classes']},
            {'native': 'uf_state_sweep byte [4] = every INV state of exactly 4 elements x find/union_internal/union/push/class-iterator arguments'},
        ],
    }
    out.assumptions = TRUSTED + [
        'BOUNDED in the number of elements: Kani n <= %s, native sweep n <= %d; the step is proved per size, not for all n (no deductive verifier here handles std::cell::Cell behind &self)' % (
            unit_uf.KANI_BOUNDS[tier], 5 if tier == 'thorough' else 4),
        'TrRelUnionFind and the HashMap front end of UnionFind: bounded native enumeration only (UnionFind histories of <= 4 (quick) / 6 (thorough) operations over 3 items, TrRelUnionFind histories of <= 6 adds over 4 items), never counted as proved',
        'feature "compact" (u32 pointers) is not built; termination of find is checked only within the size bound',
        'unsafe get_unchecked: in-bounds only under INV (checked by CBMC pointer checks within the bound)',
    ]
    return out.finish()
