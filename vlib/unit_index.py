"""The serial index unit (C19; subsets serve C01, C04, C05, C09): Verus contracts on the real functions of
ascent::internal / ascent::rel_index_read, the Kani harness for the combined view, and the native contract
enumerator (bounded search aid / stand-in) over the real types."""
import os
import re
import time
from concurrent.futures import ThreadPoolExecutor

from . import common, kani
from .common import WORK, Inconclusive, expand_crate, run_verus, classify_verus, verus_functions
from .extract import Source, LostAnchor
from .splice import Splicer
from .locate import Locator

CANARY = '\nverus! {\nproof fn __vacuity_canary()\n    ensures false\n{\n}\n}\n'


def pairs(n, kalpha, valpha):
    return ';'.join(['0-%d' % n] + [kalpha, valpha] * n)


def native_plan(tier):
    k, v = ('0-2', '0-1') if tier == 'quick' else ('0-2', '0-2')
    extra = []
    if tier == 'thorough':
        # more keys than any size-based threshold a small refactor would plausibly introduce
        extra = [
            ('type1_move_le5', pairs(5, '0-3', '0') + ';' + pairs(5, '0-2', '1'), 'pairs of indices built from <= 5 inserts over 4 / 3 keys: move_index_contents'),
            ('full_ops_le5', pairs(5, '0-3', '0') + ';' + pairs(5, '0-2', '1'), 'full index: <= 5 insert_if_not_present over 4 keys x second index of <= 5 inserts over 3 keys, move_index_contents'),
            ('lattice_ops_le5', pairs(5, '0-3', '0') + ';' + pairs(5, '0-2', '1'), 'lattice index: pairs of indices built from <= 5 inserts over 4 / 3 keys'),
        ]
    sw = '0-40;0-40;0,1,17,33;0,1,17,33' if tier == 'quick' else '0-70;0-70;0,1,9,17,33,65;0,1,9,17,33,65'
    swd = 'bucket lengths a, b and numbers of extra keys swept far beyond the exhaustive enumerations (size-based branches and thresholds): ' + sw
    extra += [
        ('type1_move_sweep', sw, 'hash-vector index move + default merge; ' + swd),
        ('lattice_move_sweep', sw, 'lattice index move; ' + swd),
        ('full_move_sweep', sw, 'full index insert_if_not_present + move; ' + swd),
        ('noindex_move_sweep', sw, 'no-index move; ' + swd),
    ]
    return extra + [
        ('type1_insert_get_le4', pairs(4, '0-2', '0-2'), 'all insert sequences of <= 4 (key,value) pairs over {0..2}^2; every lookup and full iteration compared with a reference multimap'),
        ('type1_move_le3', pairs(3, k, v) + ';' + pairs(3, k, v), 'all pairs of indices built from <= 3 inserts each (keys %s, values %s): move_index_contents, both swap branches' % (k, v)),
        ('type1_merge_le2', ';'.join([pairs(2, k, '0-1')] * 3), 'all triples (new, delta, total) of indices built from <= 2 inserts each'),
        ('full_ops_le3', pairs(3, k, v) + ';' + pairs(3, k, v), 'all insert_if_not_present sequences of <= 3 and a second index of <= 3 inserts, then move_index_contents'),
        ('lattice_ops_le3', pairs(3, k, v) + ';' + pairs(3, k, v), 'all pairs of lattice indices built from <= 3 inserts each'),
        ('noindex_ops_le3', pairs(3, '0', v) + ';' + pairs(3, '0', v), 'all pairs of no-index vectors of <= 3 rows'),
        ('combined_view_native', '0-3;0-1;0-1;0-2;5;6;0-3;0-1;0-1;0-2;7;8', 'all combinations of two fake indices (len, is_empty, key present, 0..2 values)'),
        ('trusted_base_conformance_le3', pairs(3, '0-2', '0-2') + ';' + pairs(3, '0-2', '0-2'), 'the ASSUMED contracts (hashbrown = std model, drain, or_default, extend, once, BTreeSet ops) against the real dependencies on all inputs of <= 3 pairs'),
        ('forwarders_native', '0-2;0-2;0-1;0-1;7;0-1;0-1;8;0-1;0-1;9', 'the &mut T / &T forwarding impls against a recording implementor, small keys/values'),
    ]


# which native harnesses exercise the obligations of a Verus container/fn (for failing-input search)
def cex_candidates(container, fn):
    c = container
    if 'RelNoIndexType' in c:
        return ['noindex_ops_le3', 'noindex_move_sweep']
    if 'LatticeIndexType' in c:
        return ['lattice_ops_le3', 'lattice_move_sweep', 'lattice_ops_le5']
    if 'HashBrownRelFullIndexType' in c:
        return ['full_ops_le3', 'full_move_sweep', 'full_ops_le5']
    if 'RelIndexType1' in c:
        if fn == 'move_index_contents':
            return ['type1_move_le3', 'type1_merge_le2', 'type1_move_sweep', 'type1_move_le5']
        return ['type1_insert_get_le4', 'type1_move_le3', 'type1_move_sweep']
    if 'trait RelIndexMerge' in c:
        return ['type1_merge_le2', 'type1_move_sweep']
    if 'RelIndexCombined' in c:
        return ['combined_view_native']
    if 'for&mut T' in c or 'for&T' in c:
        return ['forwarders_native']
    return []


def build_verus_unit():
    from contracts import index as tmpl
    txt, dt = expand_crate('ascent')
    sp = Splicer({'ascent': Source(txt, 'ascent')})
    out = sp.render(tmpl.template())
    path = os.path.join(WORK, 'units', 'index_unit.rs')
    os.makedirs(os.path.dirname(path), exist_ok=True)
    with open(path, 'w') as f:
        f.write(out + CANARY)
    return path, sp.log, dt, out


ASSUMPTION_RE = re.compile(r'(assume_specification|external_body|external_type_specification|admit\(\)|assume\(|uninterp spec fn)')


def scan_assumptions(text):
    found = []
    lines = text.split('\n')
    for i, ln in enumerate(lines):
        if ASSUMPTION_RE.search(ln) and not ln.strip().startswith('//'):
            ctx = ln.strip()
            if ('external_body' in ctx or 'external_type_specification' in ctx) and i + 1 < len(lines):
                j = i + 1
                while j < len(lines) and lines[j].strip().startswith('#['):
                    j += 1
                ctx += ' ' + lines[j].strip() if j < len(lines) else ''
            found.append(ctx[:200])
    return sorted(set(found))


def run_verus_part():
    t0 = time.time()
    try:
        path, log, expand_s, body = build_verus_unit()
    except LostAnchor as ex:
        from .splice import Log
        return {'path': None, 'log': Log(), 'expand_s': 0.0, 'wall_s': time.time() - t0, 'verus_s': 0.0, 'functions': [], 'verified': 0,
                'failures': [], 'inconclusive': 'lost anchor while splicing the unit: %s' % ex, 'canary_ok': False, 'assumption_scan': []}
    res = run_verus(path, timeout=900)
    loc = Locator(open(path).read(), path)
    st, fails, why = classify_verus(res, canary='__vacuity_canary')
    funcs = verus_functions(res)
    vr = (res['json'] or {}).get('verification-results') or {}
    out = {'path': path, 'log': log, 'expand_s': expand_s, 'wall_s': time.time() - t0, 'verus_s': res['wall_s'],
           'functions': funcs, 'verified': vr.get('verified', 0), 'failures': [], 'inconclusive': None,
           'canary_ok': st != 'inconclusive', 'assumption_scan': scan_assumptions(body)}
    if st == 'inconclusive':
        out['inconclusive'] = why
        return out
    if fails:
        fails, dropped, notes = common.confirm_failures_in_isolation(path, res, fails)
        out['unstable_dropped'] = notes
    for f in fails:
        name, pick, clause = loc.name_failure(f)
        out['failures'].append({'obligation': name, 'container': pick[0], 'fn': pick[1], 'kind': f['kind'], 'clause': clause,
                                'verifier_output': f['text']})
    return out


def run_kani_part(crate, tier):
    hs = ['combined_view', 'forwarders']
    res, dt, text = kani.run_kani(crate, hs, jobs=2, timeout=3600)
    out = {'harnesses': hs, 'results': res, 'wall_s': dt, 'failures': [], 'inconclusive': []}
    missing = [h for h in hs if h not in res or res[h]['status'] is None]
    if missing:
        out['inconclusive'].append('kani: no result for harnesses %s\n%s' % (missing, text[-3000:]))
    for h in hs:
        if h in res and res[h]['status'] == 'FAILED':
            try:
                r2, _, _ = kani.run_kani(crate, [h], jobs=1, timeout=3600, playback=True)
                pb = (r2.get(h) or {}).get('playback') or []
            except Inconclusive:
                pb = []
            out['failures'].append({'harness': h, 'failed_checks': res[h]['failed'], 'playback': pb, 'raw': res[h]['raw'][-3000:]})
    return out


def run_native_part(binary, tier):
    out = {'results': {}, 'failures': []}

    def one(p):
        return p, kani.native_exhaust(binary, p[0], p[1], timeout=1500)
    with ThreadPoolExecutor(max_workers=6) as ex:
        for p, r in ex.map(one, native_plan(tier)):
            out['results'][p[0]] = dict(r, domain=p[2])
            for f in r['failures']:
                out['failures'].append({'harness': p[0], 'obligation': f['obligation'], 'input': f['input']})
    return out


def triples(n, k, v):
    return ';'.join(['0-%d' % n] + ['0-1', k, v] * n)


def concurrent_plan(tier, only_full=False):
    """BOUNDED sequential (+ sampled schedules) stand-in for the concurrent index types."""
    v2 = '0-1'
    plan = [
        ('cfull_ops_le2', triples(2, '0-1', v2) + ';' + triples(2, '0-1', '1'), 'CRelFullIndex: all insert_if_not_present sequences of <= 2 (both the &mut and the shared path) x a second index of <= 2 inserts; freeze/unfreeze; move_index_contents'),
    ]
    if not only_full:
        plan += [
            ('crelindex_ops_le2', triples(2, '0-1', v2) + ';' + triples(2, '0-1', '1'), 'CRelIndex: all pairs of indices built from <= 2 inserts (both insertion paths); freeze/unfreeze; move_index_contents'),
            ('ccombined_ops_le2', triples(2, '0-1', v2) + ';' + triples(2, '0-1', '1'), 'RelIndexCombined over two frozen CRelIndex: serial and parallel lookup / iteration see the entries of both'),
            ('crelindex_merge_le1', ';'.join([triples(1, '0-1', v2)] * 3), 'CRelIndex: all triples (new, delta, total) of indices with <= 1 entry: default merge'),
            ('clatindex_ops_le2', triples(2, '0-1', v2) + ';' + triples(2, '0-1', '1'), 'CLatIndex: all pairs of indices built from <= 2 inserts; freeze/unfreeze; move_index_contents'),
            ('cnoindex_ops_le2', triples(2, '0', v2) + ';' + triples(2, '0', v2), 'CRelNoIndex: all pairs of <= 2 rows (both insertion paths); move_index_contents'),
        ]
    rounds = 40 if tier == 'quick' else 250
    plan.append(('concurrent_samples', str(rounds), '%d sampled schedules of 4 threads: concurrent inserts all retained; racing insert_if_not_present on 64 absent keys has exactly one winner each' % rounds))
    return plan


def run_concurrent_part(tier, only_full=False):
    crate = kani.instantiate('cidxcheck')
    binary, _ = kani.build_native(crate, 'cidxcheck')
    out = {'results': {}, 'failures': [], 'binary': binary, 'crate': crate}

    def one(p):
        return p, kani.native_exhaust(binary, p[0], p[1], timeout=1500)
    with ThreadPoolExecutor(max_workers=3) as ex:
        for p, r in ex.map(one, concurrent_plan(tier, only_full)):
            out['results'][p[0]] = dict(r, domain=p[2])
            for f in r['failures']:
                out['failures'].append({'harness': p[0], 'obligation': f['obligation'], 'input': f['input']})
    return out


def run_unit(tier, with_kani=True, with_concurrent=None):
    """with_concurrent: None (skip) | 'all' | 'full' (CRelFullIndex only)"""
    t0 = time.time()
    crate = kani.instantiate('idxcheck')
    with ThreadPoolExecutor(max_workers=4) as ex:
        fv = ex.submit(run_verus_part)
        fk = ex.submit(run_kani_part, crate, tier) if with_kani else None
        fc = ex.submit(run_concurrent_part, tier, with_concurrent == 'full') if with_concurrent else None
        binary, _ = kani.build_native(crate, 'idxcheck')
        n = run_native_part(binary, tier)
        v = fv.result()
        k = fk.result() if fk else {'harnesses': [], 'results': {}, 'wall_s': 0, 'failures': [], 'inconclusive': []}
        c = fc.result() if fc else None
    return {'verus': v, 'kani': k, 'native': n, 'concurrent': c, 'binary': binary, 'crate': crate, 'wall_s': time.time() - t0}


def companions_ran_clean(vf, unit):
    """True iff this function has executable-contract companions, at least one ran in this run and none of them failed."""
    cands = cex_candidates(vf['container'], vf['fn'])
    res = unit['native']['results']
    ran = [h for h in cands if h in res]
    return bool(ran) and all(not res[h]['failures'] for h in ran)


def find_cex(vf, unit):
    for h in cex_candidates(vf['container'], vf['fn']):
        r = unit['native']['results'].get(h)
        if r and r['failures']:
            f = r['failures'][0]
            rp = kani.native_replay(unit['binary'], h, f['input'])
            if rp['failed']:
                return {'source': 'native contract enumeration', 'harness': h, 'input_bytes': f['input'], 'replay_failed': rp['failed'],
                        'replay_stdout': rp['stdout']}
    return None
