"""Aggregator unit (C17, and the not/count obligations of C04)."""
import os
import re
import time
from concurrent.futures import ThreadPoolExecutor

from . import common, kani
from .common import Inconclusive, expand_crate
from .extract import Source, LostAnchor

P_INDEX_TEMPLATE = '''// GENERATED on every run from the macro-expanded /repo source of ascent::aggregators::percentile:
// the statements of its closure body that compute the index passed to swap_remove, verbatim.
// Dropped (stated exactly): the statement that collects the input into `sorted`, the `sorted.sort()` call and the
// final `swap_remove` expression itself, whose index argument is what this function returns.
// `sorted` is replaced by a stand-in that only has a length, so huge lengths are covered without allocating.
pub struct Sorted { pub n: usize }
impl Sorted { pub fn len(&self) -> usize { self.n } pub fn is_empty(&self) -> bool { self.n == 0 } }
#[allow(unused_variables, unused_mut)]
pub fn p_index_of(len: usize, p: f64) -> usize {
   let sorted = Sorted { n: len };
%s
   %s
}
'''


def split_statements(body):
    """top-level `;`-separated statements of a block body (last element = trailing expression)."""
    from .extract import scan
    parts = []
    depth = 0
    last = 0
    for pos, c in scan(body, 0):
        if c in '([{':
            depth += 1
        elif c in ')]}':
            depth -= 1
        elif c == ';' and depth == 0:
            parts.append(body[last:pos].strip())
            last = pos + 1
    parts.append(body[last:].strip())
    return parts


def extract_p_index_statement():
    from .extract import match_close
    txt, dt = expand_crate('ascent')
    src = Source(txt, 'ascent')
    fn = src.one('aggregators', kind='fn', name='percentile')
    m = re.search(r'move\s*\|\s*inp\s*\|\s*\{', fn.body)
    if not m:
        raise LostAnchor('ascent::aggregators::percentile: closure `move |inp| { .. }` not found')
    ob = m.end() - 1
    cb = match_close(fn.body, ob)
    stmts = split_statements(fn.body[ob + 1:cb])
    tail = stmts[-1]
    mi = re.search(r'\bswap_remove\s*\(', tail)
    if not mi:
        raise LostAnchor('ascent::aggregators::percentile: trailing expression does not call swap_remove(index)')
    close = match_close(tail, mi.end() - 1, '(', ')')
    index_expr = tail[mi.end():close].strip()
    kept = []
    dropped = []
    for st in stmts[:-1]:
        if not st:
            continue
        if st.startswith('let') and not re.search(r'\binp\b', st):
            kept.append(re.sub(r'\s+', ' ', st) + ';')
        else:
            dropped.append(re.sub(r'\s+', ' ', st))
    return {'kept': kept, 'index_expr': index_expr, 'dropped': dropped + ['<final expression> ' + re.sub(r'\s+', ' ', tail)]}, fn.text, dt


KANI_QUICK = ['min_max_le8', 'sum_le8', 'count_le8', 'not_le8', 'mean_le2', 'percentile_index_len_le_2p40']
KANI_THOROUGH = ['min_max_le16', 'sum_le16', 'count_le16', 'mean_le3', 'percentile_index_len_le_2p46']

B5 = '0,1,127,128,255'


def native_plan(tier):
    vals = '0-3'
    plan = [
        ('min_max_le6', ';'.join(['0-6'] + [vals] * 6), 'all inputs of length <= 6 over {0..3}'),
        ('sum_le6', ';'.join(['0-6'] + [B5] * 6), 'all inputs of length <= 6 over {0,1,127,128,255} (as u64-shifted and as i8)'),
        ('count_le6', ';'.join(['0-6'] + ['0-2'] * 6 + ['0-2']), 'all inputs of length <= 6 over {0..2} x filter threshold {0..2}'),
        ('not_le6', ';'.join(['0-6'] + ['0'] * 6), 'all lengths 0..6'),
        ('mean_le6', ';'.join(['0-6'] + [B5] * 6), 'all inputs of length <= 6 over i8 {0,1,127,-128,-1} * 3'),
    ]
    # p = k/8, k = hi*256+lo <= 800: all 801 dyadic percentiles incl. both end points
    if tier == 'quick':
        plan.append(('percentile_le5', ';'.join(['0-5'] + [vals] * 5 + ['0-3', '0-255']), 'all inputs of length <= 5 over {0..3} x all p = k/8 in [0,100]'))
    else:
        plan.append(('percentile_le6', ';'.join(['0-6'] + [vals] * 6 + ['0-3', '0-255']), 'all inputs of length <= 6 over {0..3} x all p = k/8 in [0,100]'))
    return plan


def prepare_crate():
    """aggcheck instantiated against $VERIF_REPO with the freshly extracted percentile index statements"""
    crate = kani.instantiate('aggcheck')
    try:
        ext, fn_text, expand_s = extract_p_index_statement()
    except LostAnchor as ex:
        # the index computation cannot be isolated any more (percentile was restructured): the complete index obligation is
        # skipped (reported as inconclusive unless the end-to-end contracts demonstrate a violation); everything else still runs
        ext = {'kept': [], 'index_expr': '0', 'dropped': [], 'lost_anchor': str(ex)}
        expand_s = 0.0
    with open(os.path.join(crate, 'src', 'p_index_extracted.rs'), 'w') as f:
        f.write(P_INDEX_TEMPLATE % ('\n'.join('   ' + k for k in ext['kept']), ext['index_expr']))
    return crate, ext, expand_s


def run_unit(tier, only_prefix=None):
    t0 = time.time()
    out = {'inconclusive': [], 'kani': None, 'native': {}, 'native_failures': [], 'stmt': None}
    crate, ext, expand_s = prepare_crate()
    out['stmt'] = ' '.join(ext['kept']) + ' -> ' + ext['index_expr']
    out['extraction'] = ext
    out['expand_s'] = expand_s
    out['crate'] = crate
    hs = list(KANI_QUICK) + (KANI_THOROUGH if tier == 'thorough' else [])
    if ext.get('lost_anchor'):
        hs = [h for h in hs if not h.startswith('percentile_index')]
        out['index_lost'] = ext['lost_anchor']
    plan = native_plan(tier)
    if only_prefix:
        hs = [h for h in hs if h.startswith(only_prefix)]
        plan = [p for p in plan if p[0].startswith(only_prefix)]

    def kani_part():
        res, dt, text = kani.run_kani(crate, hs, jobs=8, timeout=7200 if tier == 'thorough' else 1500)
        r = {'harnesses': hs, 'results': res, 'wall_s': dt, 'failures': []}
        missing = [h for h in hs if h not in res or res[h]['status'] is None]
        if missing:
            out['inconclusive'].append('kani: no result for harnesses %s\n%s' % (missing, text[-3000:]))
        failed = [h for h in hs if h in res and res[h]['status'] == 'FAILED']

        def pb_one(h):
            try:
                r2, _, _ = kani.run_kani(crate, [h], jobs=1, timeout=3600, playback=True)
                return h, (r2.get(h) or {}).get('playback') or []
            except Inconclusive:
                return h, []
        if failed:
            with ThreadPoolExecutor(max_workers=4) as ex:
                for h, pb in ex.map(pb_one, failed):
                    r['failures'].append({'harness': h, 'failed_checks': res[h]['failed'], 'playback': pb, 'raw': res[h]['raw'][-3000:]})
        return r

    try:
        binary, _ = kani.build_native(crate, 'aggcheck')
    except Inconclusive as exb:
        if ext.get('lost_anchor') or 'p_index_extracted' not in str(exb):
            raise
        # the extracted statements no longer compile on their own (percentile was restructured): skip the index obligation
        ext['lost_anchor'] = 'the extracted index statements do not compile in isolation'
        out['index_lost'] = ext['lost_anchor']
        with open(os.path.join(crate, 'src', 'p_index_extracted.rs'), 'w') as f:
            f.write(P_INDEX_TEMPLATE % ('', '0'))
        hs[:] = [h for h in hs if not h.startswith('percentile_index')]
    with ThreadPoolExecutor(max_workers=2) as ex:
        fk = ex.submit(kani_part)
        binary, _ = kani.build_native(crate, 'aggcheck')
        out['binary'] = binary

        def one(p):
            return p, kani.native_exhaust(binary, p[0], p[1], timeout=1500)
        with ThreadPoolExecutor(max_workers=6) as ex2:
            for p, r in ex2.map(one, plan):
                out['native'][p[0]] = dict(r, domain=p[2])
                for f in r['failures']:
                    out['native_failures'].append({'harness': p[0], 'obligation': f['obligation'], 'input': f['input']})
        out['kani'] = fk.result()
    out['wall_s'] = time.time() - t0
    return out
