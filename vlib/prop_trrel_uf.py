"""C12 (PARTIAL, binary form only): the subsumption forest of TrRelUnionFind is proved (Verus, unbounded; unit shared with C18); the delta/total
protocol of the BINARY trrel_uf provider is a bounded native stand-in.  The ternary form (generic adaptor) is not covered."""
import time
from concurrent.futures import ThreadPoolExecutor

from . import common, kani, unit_trruf as unit_eqrel, unit_uf, unit_index
from .extract import LostAnchor
from .prop_index import summarize_rewrites
from .report import Outcome

TRUSTED = [
    'Verus 0.2026.09.13 + Z3 (vstd specifications of Vec, HashMap, HashSet, hash_map::Entry)',
    'hashbrown::{HashMap, HashSet} modelled by std::collections::{HashMap, HashSet}; rustc_hash::FxHasher by a stand-in type',
    'assumed contracts (listed under coverage.assumption_scan): Entry::or_default, Option::is_some_and, HashSet::default() / Vec::default() are empty, '
    'BuildHasherDefault<FxHasher> builds valid hashers',
    'hypotheses on the element type T stated as preconditions: vstd obeys_key_model::<T>() and "T::clone returns an equal value"',
]


def native_plan(tier):
    bin_dom = 'every sequence of <= %d events {derive (a, b) over 4 items, end of iteration, end of stratum} + a closing stratum end, binary trrel_uf provider'
    if tier == 'thorough':
        return [('trrel_uf_protocol_le6', ';'.join(['0-18'] * 6), bin_dom % 6)]
    return [('trrel_uf_protocol_le5', ';'.join(['0-18'] * 5), bin_dom % 5)]


def run(pid, tier):
    out = Outcome(pid, tier, 'other')
    t0 = time.time()
    native = {}
    native_failures = []
    binary = None
    with ThreadPoolExecutor(max_workers=2) as ex:
        fv = ex.submit(unit_eqrel.run_verus_part)
        try:
            crate, _ = unit_uf.prepare_crate()
            binary, _ = kani.build_native(crate, 'ufcheck')
            def one(p):
                to = 300 if tier == 'quick' else 7200
                return p, kani.native_exhaust_sharded(binary, p[0], p[1], shards=16 if tier == 'thorough' else 10, timeout=to)
            with ThreadPoolExecutor(max_workers=3 if tier == 'quick' else 1) as ex2:
                for (h, alpha, dom), r in ex2.map(one, native_plan(tier)):
                    native[h] = dict(r, domain=dom)
                    for f in r['failures']:
                        native_failures.append({'harness': h, 'obligation': f['obligation'], 'input': f['input']})
        except (common.Inconclusive, LostAnchor) as exn:
            out.inconclusive.append('native eqrel protocol companion could not run: %s' % str(exn)[-1500:])
        v = fv.result()
    natives_ran_clean = bool(native) and not native_failures and not out.inconclusive
    # ---- native failures: failing inputs on the real code
    for nf in native_failures:
        rp = kani.native_replay(binary, nf['harness'], nf['input'])
        out.violation('native::%s::%s' % (nf['harness'], nf['obligation']), 'bounded native execution of the real trrel_uf provider',
                      'obligation %s failed for input bytes %s' % (nf['obligation'], nf['input']),
                      failing_input={'crate': 'ufcheck', 'harness': nf['harness'], 'bytes': nf['input'], 'failed_on_real_code': rp['failed']},
                      replay_transcript=rp['stdout'])
    # ---- Verus
    if v['status'] == 'inconclusive':
        msg = 'verus could not process the TrRelUnionFind forest unit (%s)' % (v['inconclusive'] or '').strip().split('\n')[0][:300]
        if natives_ran_clean:
            out.proof_lost.append(msg + ': the proof of the TrRelUnionFind forest is unavailable on this tree; the bounded protocol companion passed')
        elif not native_failures:
            out.inconclusive.append(msg + '\n' + (v['inconclusive'] or ''))
    for dg in v.get('degraded') or []:
        msg = 'the proof annotations of %s no longer fit the code (%s): its contract is ASSUMED in this run, the other functions are still verified against it' % (dg['fn'], dg['why'][:200])
        if natives_ran_clean:
            out.proof_lost.append(msg + '; the bounded protocol companion passed')
        elif not native_failures:
            out.inconclusive.append(msg)
    for f in v['failures']:
        if native_failures:
            # the demonstrated failing input is the report; the lost obligation is attached to it
            out.notes.append('verus: %s' % f['obligation'])
            continue
        if natives_ran_clean:
            out.proof_lost.append('verus could not prove %s; the bounded protocol companion (every event sequence of the stated length over 4 items, all index views) '
                                  'found no failing input: proof lost, no violation demonstrated.\n%s' % (f['obligation'], f['verifier_output'][:1500]))
        else:
            out.violation(f['obligation'], 'verus', f['verifier_output'])
    funcs = [f for f in v['functions'] if f[0] and '__vacuity_canary' not in f[0]]
    ok = sum(1 for f in funcs if f[2])
    log = v['log']
    body = open(v['path']).read() if v.get('path') else ''
    out.coverage = {
        'obligations': len(funcs),
        'discharged': ok if v['status'] == 'ok' else sum(1 for f in funcs if f[2]),
        'checker_cmd': 'verus %s --output-json --time-expanded  ;  ufcheck exhaust trrel_uf_protocol_le5 <alphabets>' % v.get('path'),
        'trusted_base': TRUSTED,
        'explanation': 'obligation = one Verus function of the TrRelUnionFind forest unit (the same unit C18 runs): class ids form an acyclic subsumption forest, get_dominant_id / elem_set return the root, '
                       'the path-compressing variants and add_node_new / add_node change the class of no known element, depths cannot overflow. This is the structure the trrel_uf provider keeps its total '
                       'version in. TrRelUnionFind::add with its class collapse, the class-level semi-naive loop of TrRelIndCommon::merge_delta_to_total_new_to_delta and the index views are outside Verus: they are '
                       'exercised only by the bounded native protocol companion, for the BINARY form. The ternary form goes through the generic adaptor adaptor/bin_rel_to_ternary.rs, which is NOT covered '
                       '(an exploration run showed several defects there, DESIGN.md section 8).',
        'backends': {'verus': {'functions_verified': ok, 'functions_total': len(funcs), 'solver_wall_s': round(v.get('verus_s', 0.0), 2),
                               'real_functions_under_contract': [r['fn'] for r in log.real_fns] if log else [],
                               'vacuity_canary_failed_as_required': v.get('canary_ok', False)}},
        'functions_under_contract': ['ascent_byods_rels::trrel_union_find::TrRelUnionFind::%s' % r['fn'] for r in (log.real_fns if log else [])],
        'not_under_contract': ['TrRelUnionFind::{add, merge_multiple, add_set_connection, contains, set_of, rev_set_of, iter_all, count_exact} (bounded native histories under C18)',
                               'everything in trrel_union_find_binary_ind.rs (TrRelDelta, the class-level closure loop, the views): bounded native companion only',
                               'adaptor/bin_rel_to_ternary.rs, adaptor/bin_rel.rs (the ternary form and the generic view adaptors): NOT covered', 'the code the macro generates around the provider'],
        'rewrites_applied': summarize_rewrites(log.rewrites) if log else {},
        'dropped_functions': log.dropped if log else [],
        'contracts_assumed_in_this_run_because_annotations_lost': [d['fn'] for d in (v.get('degraded') or [])],
        'assumption_scan': unit_index.scan_assumptions(body),
        'bounded_native_companion_not_counted': {h: {'evaluated': r['evaluated'], 'domain': r['domain'], 'failures': len(r['failures'])} for h, r in native.items()},
        'verus_functions': [[f[0], f[1], f[2]] for f in funcs],
        'samples': [{'contract': 'elem_set_update: no element changes its class; returns Some(class) exactly for known elements'},
                    {'native': 'trrel_uf_protocol_le5 bytes [8, 17, 1]: derive (1,3); end of iteration; derive (0,0) -> (0,0) must show in the [] / full view of delta (the defect repaired by 948973f)'}],
    }
    out.assumptions = TRUSTED + [
        'C12 PARTIAL, BINARY FORM ONLY: proved (unbounded) is the subsumption forest of TrRelUnionFind; the class-level closure, delta/total bookkeeping and index views of the binary trrel_uf '
        'provider are checked by a BOUNDED native enumeration (<= 5 / 6 events over 4 items) against the reflexive transitive closure',
        'the ternary form (generic binary-to-ternary adaptor) is not covered; the generated code around the provider is not covered',
        'the clause "new rows inside one class of the closure show in delta" (violated on the pinned tree, repaired by 948973f) is kept as a separate obligation',
    ]
    if tier == 'thorough' and v.get('path') and v['status'] == 'ok':
        import os
        out.coverage['proof_stability_under_smt_seeds'] = {os.path.basename(v['path']): common.stability_sweep(v['path'], seeds=(1, 2, 3, 4, 5))}
    return out.finish()
