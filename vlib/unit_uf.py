"""Union-find unit (C18): ascent-byods-rels uf.rs (Kani contracts + inductive step) and TrRelUnionFind (bounded native)."""
import os
import time
from concurrent.futures import ThreadPoolExecutor

from . import common, kani
from .common import Inconclusive, REPO
from .extract import parse_items, LostAnchor

INCLUDE_LINE = '\n   include!("uf_elems_harness.rs"); // inserted by /verif (the only change to this file)\n'


def prepare_crate():
    """ufcheck instantiated against $VERIF_REPO; src/uf.rs = the real file + one include! line inside `pub mod elems`."""
    crate = kani.instantiate('ufcheck')
    path = os.path.join(REPO, 'byods', 'ascent-byods-rels', 'src', 'uf.rs')
    if not os.path.exists(path):
        raise LostAnchor('byods/ascent-byods-rels/src/uf.rs not found')
    text = open(path).read()
    mods = [it for it in parse_items(text) if it.kind == 'mod' and it.name == 'elems' and it.body is not None]
    if len(mods) != 1:
        raise LostAnchor('uf.rs: expected exactly one inline `mod elems`, found %d' % len(mods))
    close = mods[0].end - 1
    assert text[close] == '}'
    out = text[:close] + INCLUDE_LINE + text[close:]
    with open(os.path.join(crate, 'src', 'uf.rs'), 'w') as f:
        f.write(out)
    return crate, {'source': path, 'bytes_copied': len(text), 'inserted': INCLUDE_LINE.strip(), 'dropped': 'nothing'}


# complete = loop-free over the full machine domain; step = inductive step over all invariant states with exactly n elements
KANI_COMPLETE = ['elem_union', 'union_by_rank']
CANARY = 'vacuity_canary_n3'
KANI_QUICK = (KANI_COMPLETE + [CANARY] + ['%s_step_n%d' % (op, n) for op in ('find', 'union_internal', 'push', 'class_iter') for n in (1, 2, 3)]
              + ['union_step_n2', 'union_step_n3', 'find_step_n4', 'push_step_n4', 'class_iter_step_n4'])
KANI_THOROUGH_EXTRA = ['union_internal_step_n4', 'union_step_n4', 'find_step_n5', 'class_iter_step_n5', 'push_step_n5', 'union_internal_step_n5',
                       'find_step_n6', 'class_iter_step_n6']
# largest n per operation, for the evidence text
KANI_BOUNDS = {'quick': {'find': 4, 'union_internal': 3, 'union': 3, 'push': 4, 'class iterator': 4},
               'thorough': {'find': 6, 'union_internal': 5, 'union': 4, 'push': 5, 'class iterator': 6}}


def state_alpha(n):
    return ';'.join(['1-%d' % n] + ['0-%d' % (n - 1), '0-%d' % (n - 1), '0-%d' % n] * n)


def native_plan(tier):
    plan = [
        ('find_step_le3', state_alpha(3) + ';0-2;0', 'every state of <= 3 elements (parent, next < n; rank <= n) satisfying INV x every id (byte-encoded, replayable)'),
        ('union_internal_step_le3', state_alpha(3) + ';0-2;0-2', 'every INV state of <= 3 elements x every (x, y)'),
        ('uf_state_sweep', '1-4', 'every INV state of exactly 1..4 elements (pruned enumeration: 1 + 7 + 223 + 21361 states) x every argument of find, union_internal, union, push, class iterator'),
        ('uf_history_le4', ';'.join(['0-24'] * 4), 'every history of <= 4 operations {add, find_item, union_add, union_add_clone} over 3 items'),
        ('trrel_uf_history_le6', ';'.join(['0-16'] * 6), 'every history of <= 6 add(x, y) over 4 items (incl. self pairs, repeats, back edges; two chained class collapses need 5-6 adds)'),
    ]
    if tier == 'thorough':
        plan += [
            ('uf_state_sweep', '5', 'every INV state of exactly 5 elements (4615801 states, 281563861 contract evaluations)', 'uf_state_sweep_n5'),
            ('uf_history_le6', ';'.join(['0-24'] * 6), 'every history of <= 6 operations over 3 items'),
        ]
    return plan


def run_unit(tier, crate_info=None):
    t0 = time.time()
    out = {'inconclusive': [], 'kani': None, 'native': {}, 'native_failures': []}
    crate, ext = crate_info or prepare_crate()
    out['crate'] = crate
    out['extraction'] = ext
    hs = list(KANI_QUICK) + (KANI_THOROUGH_EXTRA if tier == 'thorough' else [])
    plan = native_plan(tier)

    def kani_part():
        res, dt, text = kani.run_kani(crate, hs, jobs=8, timeout=7200 if tier == 'thorough' else 1800)
        r = {'harnesses': hs, 'results': res, 'wall_s': dt, 'failures': []}
        missing = [h for h in hs if h not in res or res[h]['status'] is None]
        if missing:
            out['inconclusive'].append('kani: no result for harnesses %s\n%s' % (missing, text[-3000:]))
        failed = [h for h in hs if h in res and res[h]['status'] == 'FAILED']

        def pb_one(h):
            try:
                r2, _, _ = kani.run_kani(crate, [h], jobs=1, timeout=3600, playback=True)
                return h, (r2.get(h) or {}).get('playback') or []
            except Inconclusive:
                return h, []
        if failed:
            with ThreadPoolExecutor(max_workers=4) as ex:
                for h, pb in ex.map(pb_one, failed):
                    r['failures'].append({'harness': h, 'failed_checks': res[h]['failed'], 'playback': pb, 'raw': res[h]['raw'][-3000:]})
        return r

    binary, _ = kani.build_native(crate, 'ufcheck')
    out['binary'] = binary
    with ThreadPoolExecutor(max_workers=2) as ex:
        fk = ex.submit(kani_part)

        def one(p):
            if p[0].startswith(('trrel_uf_history', 'uf_history')):
                return p, kani.native_exhaust_sharded(binary, p[0], p[1], shards=8, timeout=1500)
            return p, kani.native_exhaust(binary, p[0], p[1], timeout=1500)
        with ThreadPoolExecutor(max_workers=6) as ex2:
            for p, r in ex2.map(one, plan):
                out['native'][p[3] if len(p) > 3 else p[0]] = dict(r, domain=p[2])
                for f in r['failures']:
                    out['native_failures'].append({'harness': p[0], 'obligation': f['obligation'], 'input': f['input']})
        out['kani'] = fk.result()
    out['wall_s'] = time.time() - t0
    return out
