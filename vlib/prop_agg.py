"""C17: library aggregators compute their mathematical definition and are total."""
from . import common, kani, unit_agg
from .extract import LostAnchor
from .report import Outcome

TRUSTED = [
    'Kani 0.68 + CBMC 6.11 (bit-precise integers and IEEE-754 doubles)',
    'rustc nightly -Zunpretty=expanded (source of the extracted percentile index statement)',
    'the harness-side oracles (rank by counting, exact integer sums) are the mathematical definitions',
]


def report_failures(out, unit, crate_name, kani_filter=None, native_filter=None, tool_limit_fallback=False):
    k = unit['kani']
    seen = set()
    for kf in k['failures']:
        h = kf['harness']
        if kani_filter and not kani_filter(h):
            continue
        confirmed = False
        for pb in kf['playback']:
            flat = [b for vv in pb['vals'] for b in vv]
            rp = kani.native_replay(unit['binary'], h, flat)
            if rp['failed'] or rp['rc'] not in (0, 3):
                for nm in (rp['failed'] or ['no_panic']):
                    ob = 'kani::%s::%s' % (h, nm)
                    if ob in seen:
                        continue
                    seen.add(ob)
                    out.violation(ob, 'kani (counterexample replayed natively on the real code)', kf['raw'],
                                  failing_input={'crate': crate_name, 'harness': h, 'bytes': flat, 'failed_on_real_code': rp['failed'] or ['no_panic']},
                                  replay_transcript=rp['stdout'] + rp['stderr'])
                confirmed = True
        tool_limit = (not kf['failed_checks'] or all('unwinding assertion' in c for c in kf['failed_checks'])) and not kf['playback']
        if not confirmed and tool_limit and tool_limit_fallback and not unit['native_failures']:
            # Kani reached no verdict on the obligations of this harness (unwinding bound exceeded by restructured code, CBMC crash /
            # out of memory): not a failed obligation.  The native enumerations of the same contracts all passed.
            out.proof_lost.append('kani gave no verdict for harness %s (%s); the native enumerations of the same contracts found no failing input (bounded)'
                                  % (h, '; '.join(kf['failed_checks'])[:200] or kf['raw'].strip().split('\n')[0][:160]))
        elif not confirmed:
            out.inconclusive.append('kani harness %s failed (%s) but no counterexample replays on the real code: treated as a tool artefact'
                                    % (h, kf['failed_checks']))
    for nf in unit['native_failures']:
        if native_filter and not native_filter(nf['harness']):
            continue
        rp = kani.native_replay(unit['binary'], nf['harness'], nf['input'])
        out.violation('native::%s::%s' % (nf['harness'], nf['obligation']), 'exhaustive native execution of the real code',
                      'obligation %s failed for input bytes %s' % (nf['obligation'], nf['input']),
                      failing_input={'crate': crate_name, 'harness': nf['harness'], 'bytes': nf['input'], 'failed_on_real_code': rp['failed']},
                      replay_transcript=rp['stdout'])


def run(pid, tier):
    out = Outcome(pid, tier, 'other')
    try:
        unit = unit_agg.run_unit(tier)
    except (common.Inconclusive, LostAnchor) as ex:
        out.inconclusive.append('aggregator unit could not be built/run: %s' % ex)
        out.coverage = {'explanation': 'unit did not run'}
        return out.finish()
    out.inconclusive += unit['inconclusive']
    report_failures(out, unit, 'aggcheck')
    if unit.get('index_lost') and not out.violations and not out.inconclusive:
        out.proof_lost.append('the complete percentile index obligation was skipped (%s); the end-to-end percentile contract (exhaustive native runs) '
                              'and all other aggregator contracts passed' % unit['index_lost'])
    elif unit.get('index_lost') and not out.violations:
        out.inconclusive.append('percentile index obligation skipped: ' + unit['index_lost'])
    k = unit['kani']
    kres = k['results']
    ok = [h for h in k['harnesses'] if kres.get(h, {}).get('status') == 'SUCCESSFUL']
    complete = [h for h in k['harnesses'] if h.startswith('percentile_index')]
    evals = sum(r['evaluated'] for r in unit['native'].values())
    out.coverage = {
        'explanation': 'Contracts of the real pub fns of ascent::aggregators as harness pre/postconditions. '
                       'COMPLETE obligation (loop-free Kani, all p in [0,100] as f64, all lengths in range): the extracted index statement of percentile is in bounds '
                       'and hits the first/middle/last rank at p=0/50/100. BOUNDED: Kani over all u8/i8/i16 values at input length <= 8 (quick) / 16 (thorough), mean <= 2 / 3 (f64 arithmetic is expensive in CBMC); '
                       'exhaustive native execution at length <= 6 over small value sets; percentile end-to-end (sort + swap_remove) only natively '
                       '(CBMC does not terminate on sort()).',
        'obligations': len(k['harnesses']),
        'discharged': len(ok),
        'checker_cmd': 'cargo kani --harness <%s> (in %s); aggcheck exhaust <harness> <domain>' % (', '.join(k['harnesses']), unit['crate']),
        'trusted_base': TRUSTED,
        'complete_obligations': {h: {'status': kres.get(h, {}).get('status'), 'solver_s': kres.get(h, {}).get('time'),
                                     'statement_under_contract': unit['stmt']} for h in complete},
        'bounded_kani': {h: {'status': kres.get(h, {}).get('status'), 'solver_s': kres.get(h, {}).get('time'), 'cbmc_checks': kres.get(h, {}).get('checks')}
                         for h in k['harnesses'] if h not in complete},
        'bounded_native_exhaustive': {h: {'evaluated': r['evaluated'], 'domain': r['domain'], 'failures': len(r['failures'])} for h, r in unit['native'].items()},
        'evaluations': evals,
        'distinct_nontrivial': sum(r['evaluated'] for h, r in unit['native'].items() if not h.startswith('not_')),
        'rule': 'native: every byte vector of the stated per-position alphabets (length byte, element bytes, percentile bytes) is one case; '
                'non-trivial = all except the not() cases; distinct because enumeration visits each vector once',
        'exhaustive': True,
        'functions_under_contract': ['ascent::aggregators::' + f for f in ('min', 'max', 'sum', 'count', 'mean', 'percentile', 'not')],
        'samples': [
            {'kani_harness': 'count_le8', 'asserts': ['count_exact_hint_is_cardinality', 'count_inexact_hint_is_cardinality', 'count_unbounded_hint_is_cardinality', 'count_loose_hint_is_cardinality']},
            {'native': 'percentile_le5 bytes [3, 2,0,1,_,_, 3,32] = input [2,0,1], p = 100.0 -> Some(2)'},
            {'extracted_statement': unit['stmt']},
        ],
    }
    out.assumptions = TRUSTED + [
        'BOUNDED in input length (stated per harness); full value domain only under Kani at length <= 8/16 (mean: 2/3)',
        'percentile end-to-end is checked natively only (lengths <= 5/6 over {0..3}, p on the 1/8 grid of [0,100]); the index obligation is complete for len <= 2^40 (quick) / 2^46 (thorough; beyond 2^47 the product len*50 is no longer exact in f64, so the mid-rank oracle would be wrong, and no such Vec exists)',
        'sum: overflow excluded by construction of the inputs (wrapping/panicking overflow of the user type is outside the property)',
        'mean: exactness argument needs |partial sums| < 2^53',
        'user-defined aggregators are outside the claim',
    ]
    return out.finish()
