"""Outcome collection, VIOLATION / KNOWN-FINDING printing, evidence writing, exit codes."""
import json
import os
import sys
import time

from . import common


class Outcome:
    def __init__(self, pid, tier, level):
        self.pid = pid
        self.tier = tier
        self.level = level
        self.t0 = time.time()
        self.violations = []  # dict(obligation, detail, input(optional), replay_path)
        self.inconclusive = []
        # obligations whose PROOF could not be produced on this tree although nothing failed: the unit left the verifier's accepted
        # subset or a proof artefact no longer fits, and the companion checks of the same functions (complete Kani harnesses /
        # executable contracts) all passed.  Reported (PROOF-LOST lines, evidence) but neither a violation nor a tooling failure.
        self.proof_lost = []
        self.coverage = {}
        self.assumptions = []
        self.notes = []

    def violation(self, obligation, backend, verifier_output, failing_input=None, replay_transcript=None, extra=None):
        body = []
        body.append('property: %s' % self.pid)
        body.append('failed obligation: %s' % obligation)
        body.append('back end: %s' % backend)
        body.append('repository checked: %s' % common.REPO)
        if failing_input is not None:
            body.append('failing input (replayed against the real code): %s' % json.dumps(failing_input))
        else:
            body.append('failing input: none found (the verifier gives no counterexample for this obligation)')
        if replay_transcript:
            body.append('--- replay transcript ---')
            body.append(replay_transcript)
        if extra:
            body.append('--- notes ---')
            body.append(extra)
        body.append('--- verifier output ---')
        body.append(verifier_output or '')
        path = common.write_replay(self.pid, obligation, '\n'.join(body) + '\n')
        self.violations.append({'obligation': obligation, 'backend': backend, 'input': failing_input, 'replay': path})

    def finish(self):
        known, fixed = common.load_known_findings()
        unlisted = []
        printed = set()
        for v in self.violations:
            k = [x for x in known if x['property'] == self.pid and x['obligation'] in v['obligation']]
            if k:
                # one line per listed finding (several failed obligations may belong to the same finding)
                if k[0]['what'] not in printed:
                    printed.add(k[0]['what'])
                    print('KNOWN-FINDING: property=%s %s' % (self.pid, k[0]['what']))
            else:
                unlisted.append(v)
        for v in unlisted:
            # the failed obligation is named on its own line; the VIOLATION line has exactly the prescribed shape
            print('FAILED-OBLIGATION property=%s obligation=%s' % (self.pid, json.dumps(v['obligation'])))
            line = 'VIOLATION property=%s replay=%s' % (self.pid, v['replay'])
            if v['input'] is None:
                line += ' no-failing-input-found'
            print(line)
        cov = dict(self.coverage)
        if printed:
            cov['known_findings_reported'] = sorted(printed)
        if self.inconclusive:
            cov['inconclusive'] = [x[:500] for x in self.inconclusive]
        if self.proof_lost:
            cov['proof_lost_decided_by_companion_checks_only'] = [x[:700] for x in self.proof_lost]
        common.write_evidence(self.pid, self.tier, self.level, cov, self.assumptions, time.time() - self.t0, len(unlisted))
        if unlisted:
            return 1
        if self.inconclusive:
            for r in self.inconclusive:
                print('INCONCLUSIVE property=%s: %s' % (self.pid, r[:3000]), file=sys.stderr)
            return 2
        for r in self.proof_lost:
            print('PROOF-LOST property=%s: %s' % (self.pid, r.split('\n')[0][:600]))
        print('OK property=%s tier=%s obligations=%s discharged=%s wall=%.1fs' % (
            self.pid, self.tier, cov.get('obligations'), cov.get('discharged'), time.time() - self.t0))
        return 0
