"""The lattice unit (serves C16 and C03): Verus contracts on the real ascent_base::lattice impls,
Kani law harnesses on instantiations, native exhaustive checks for finite / set-valued carriers."""
import os
import re
import time
from concurrent.futures import ThreadPoolExecutor

from . import common, kani
from .common import WORK, Inconclusive, expand_crate, run_verus, classify_verus, verus_functions
from .extract import Source, LostAnchor
from .splice import Splicer
from .locate import Locator

CANARY = '\nverus! {\nproof fn __vacuity_canary()\n    ensures false\n{\n}\n}\n'

# Kani harness tiers (times measured on this image, see DESIGN.md section 4)
KANI_QUICK = [
    'laws_u8', 'laws_i8', 'laws_i16', 'laws_u16', 'laws_i32', 'laws_u32', 'laws_i64', 'laws_u64', 'laws_isize', 'laws_usize',
    'bounded_u8', 'bounded_i8', 'bounded_i16', 'bounded_u16', 'bounded_i32', 'bounded_u32', 'bounded_i64', 'bounded_u64',
    'bounded_i128', 'bounded_u128', 'bounded_isize', 'bounded_usize',
    'laws_option_u8', 'bounded_option_u8', 'laws_dual_u8', 'bounded_dual_u8', 'swaps_dual_u8', 'swaps_dual_option_p2',
    'laws_reverse_u8', 'laws_reverse_option_u8', 'laws_reverse_p2', 'bounded_reverse_u8', 'bounded_reverse_option_u8',
    'swaps_reverse_u8', 'swaps_reverse_p2', 'laws_ordlattice_u8', 'laws_ordlattice_pair',
    'lift_rc_p2', 'lift_rc_constprop', 'lift_arc_p2', 'lift_arc_constprop', 'lift_box_p2', 'lift_box_option_u8',
    'agrees_array0', 'agrees_array1', 'agrees_array2', 'agrees_array3', 'agrees_array4',
    'laws_tuple1', 'laws_tuple2', 'laws_tuple3', 'laws_tuple11', 'bounded_tuple1', 'bounded_tuple2', 'bounded_tuple3', 'bounded_tuple11',
    'laws_product1', 'laws_product2', 'laws_product3', 'assoc_product3', 'laws_product11',
    'bounded_product2', 'bounded_product3', 'bounded_product11', 'bounded_array0', 'bounded_array2', 'bounded_array3',
    'laws_constprop_u8', 'bounded_constprop_u8',
    'laws_nest_dual_option_product', 'assoc_nest_dual_option_product', 'bounded_nest_dual_option_product',
    'laws_nest_option_constprop', 'laws_nest_product_dual_option', 'assoc_nest_product_dual_option',
]
KANI_THOROUGH_EXTRA = [
    'laws_i128', 'laws_u128', 'laws_box_u8', 'laws_box_option_u8', 'laws_box_p2',
    'laws_rc_u8', 'laws_rc_p2', 'assoc_rc_p2', 'laws_rc_constprop', 'laws_arc_u8', 'laws_arc_p2', 'assoc_arc_p2', 'laws_arc_constprop',
    'laws_array0', 'laws_array1', 'laws_array2', 'laws_array3', 'assoc_array3',
]


def native_plan(tier):
    """(harness, per-byte alphabets, bounded?, description)"""
    k = 5 if tier == 'quick' else 7  # universe size for set-valued carriers
    m = '0-%d' % (2 ** k - 1)
    tm = '0-1;' + m
    return [
        ('laws_bool', '0-1;0-1;0-1', False, 'all 8 triples of bool'),
        ('bounded_bool', '0-1', False, 'both values of bool'),
        ('laws_unit', '', False, 'the single value of ()'),
        ('bounded_unit', '', False, 'the single value of ()'),
        ('laws_set_universe', ';'.join([m] * 3), True, 'all triples of subsets of {0..%d}' % (k - 1)),
        ('laws_boundedset1_universe', ';'.join([tm] * 3), True, 'all triples of BoundedSet<1> values over {0..%d} incl. TOP' % (k - 1)),
        ('laws_boundedset2_universe', ';'.join([tm] * 3), True, 'all triples of BoundedSet<2> values over {0..%d} incl. TOP' % (k - 1)),
        ('laws_boundedset3_universe', ';'.join([tm] * 3), True, 'all triples of BoundedSet<3> values over {0..%d} incl. TOP' % (k - 1)),
        ('bounded_boundedset2_universe', tm, True, 'all BoundedSet<2> values over {0..%d}' % (k - 1)),
        ('laws_option_set_universe', ';'.join([tm] * 3), True, 'all triples of Option<Set> over {0..%d}' % (k - 1)),
        ('laws_dual_set_universe', ';'.join([m] * 3), True, 'all triples of Dual<Set> over {0..%d}' % (k - 1)),
    ]


# which harnesses can produce a failing input for a Verus obligation in a given container
CEX_MAP = [
    (r'for Option<T>', ['laws_option_u8', 'bounded_option_u8']),
    (r'for Reverse<T>', ['laws_reverse_u8', 'swaps_reverse_u8', 'bounded_reverse_u8', 'laws_reverse_option_u8', 'swaps_reverse_p2']),
    (r'for Dual<T>', ['laws_dual_u8', 'swaps_dual_u8', 'bounded_dual_u8', 'swaps_dual_option_p2']),
    (r'for OrdLattice<T>', ['laws_ordlattice_u8', 'laws_ordlattice_pair']),
    (r'for ConstPropagation<T>', ['laws_constprop_u8', 'bounded_constprop_u8']),
    (r'for Product<\(T0,\)>', ['laws_product1']),
    (r'for Product<\(T0,T1\)>', ['laws_product2', 'bounded_product2']),
    (r'for Product<\(T0,T1,T2\)>', ['laws_product3', 'assoc_product3', 'bounded_product3']),
    (r'for Product<\(T0,.*T10\)>', ['laws_product11', 'bounded_product11']),
    (r'for Product<\[T;N\]>', ['agrees_array2', 'agrees_array3', 'agrees_array1', 'agrees_array4', 'agrees_array0']),
    (r'for\(T0,\)', ['laws_tuple1', 'bounded_tuple1']),
    (r'for\(T0,T1\)', ['laws_tuple2', 'bounded_tuple2']),
    (r'for\(T0,T1,T2\)', ['laws_tuple3', 'bounded_tuple3']),
    (r'for\(T0,.*T10\)', ['laws_tuple11', 'bounded_tuple11']),
    (r'^fn$|combine_orderings', ['laws_product2', 'laws_product3']),
    (r'trait Lattice', ['laws_u8']),
    (r'for BoundedSet<', ['laws_boundedset2_universe', 'laws_boundedset1_universe', 'laws_boundedset3_universe', 'bounded_boundedset2_universe']),
    (r'for Set<T>', ['laws_set_universe', 'laws_option_set_universe', 'laws_dual_set_universe']),
]
for _t in ['i8', 'u8', 'i16', 'u16', 'i32', 'u32', 'i64', 'u64', 'i128', 'u128', 'isize', 'usize']:
    CEX_MAP.append((r'for %s$' % _t, ['laws_%s' % _t, 'bounded_%s' % _t]))


def build_verus_unit():
    from contracts import lattice as tmpl
    txt, dt = expand_crate('ascent_base')
    sp = Splicer({'ascent_base': Source(txt, 'ascent_base')})
    out = sp.render(tmpl.template())
    path = os.path.join(WORK, 'units', 'lattice_unit.rs')
    os.makedirs(os.path.dirname(path), exist_ok=True)
    with open(path, 'w') as f:
        f.write(out + CANARY)
    return path, sp.log, dt


def build_set_unit():
    from contracts import setlat as tmpl
    txt, dt = expand_crate('ascent_base')
    sp = Splicer({'ascent_base': Source(txt, 'ascent_base')})
    out = sp.render(tmpl.template())
    path = os.path.join(WORK, 'units', 'setlat_unit.rs')
    os.makedirs(os.path.dirname(path), exist_ok=True)
    with open(path, 'w') as f:
        f.write(out + CANARY)
    return path, sp.log, dt


def run_verus_part(builder=None):
    t0 = time.time()
    try:
        path, log, expand_s = (builder or build_verus_unit)()
    except LostAnchor as ex:
        from .splice import Log
        return {'path': None, 'log': Log(), 'expand_s': 0.0, 'wall_s': time.time() - t0, 'verus_s': 0.0, 'functions': [], 'verified': 0, 'errors': 0,
                'failures': [], 'inconclusive': 'lost anchor while splicing the unit: %s' % ex, 'canary_ok': False}
    res = run_verus(path, timeout=900)
    text = open(path).read()
    loc = Locator(text, path)
    st, fails, why = classify_verus(res, canary='__vacuity_canary')
    funcs = verus_functions(res)
    vr = (res['json'] or {}).get('verification-results') or {}
    out = {
        'path': path, 'log': log, 'expand_s': expand_s, 'wall_s': time.time() - t0, 'verus_s': res['wall_s'],
        'functions': funcs, 'verified': vr.get('verified', 0), 'errors': vr.get('errors', 0),
        'failures': [], 'inconclusive': None, 'canary_ok': st != 'inconclusive',
    }
    if st == 'inconclusive':
        out['inconclusive'] = why
        return out
    if out['verified'] < len(log.real_fns):
        out['inconclusive'] = 'verus verified %d functions but %d real functions were spliced' % (out['verified'], len(log.real_fns))
        if not fails:
            return out
    if fails:
        fails, dropped, notes = common.confirm_failures_in_isolation(path, res, fails)
        out['unstable_dropped'] = notes
    other = fails
    for f in other:
        name, pick, clause = loc.name_failure(f)
        out['failures'].append({'obligation': name, 'container': pick[0], 'fn': pick[1], 'kind': f['kind'], 'clause': clause,
                                'verifier_output': f['text']})
    return out


def run_kani_part(tier, only=None, crate=None):
    crate = crate or kani.instantiate('lawcheck')
    hs = list(KANI_QUICK) + (KANI_THOROUGH_EXTRA if tier == 'thorough' else [])
    if only is not None:
        hs = [h for h in hs if h in only]
    t0 = time.time()
    res, dt, text = kani.run_kani(crate, hs, jobs=14, timeout=7200 if tier == 'thorough' else 1500)
    out = {'crate': crate, 'harnesses': hs, 'results': res, 'wall_s': time.time() - t0, 'failures': [], 'inconclusive': []}
    missing = [h for h in hs if h not in res or res[h]['status'] is None]
    if missing:
        out['inconclusive'].append('no result for harnesses %s\n%s' % (missing, text[-3000:]))
    failed = [h for h in hs if h in res and res[h]['status'] == 'FAILED']
    if failed:
        # second pass for counterexamples (concrete playback is single-threaded in Kani: one process per harness,
        # cheapest failing harnesses first, at most 6 -- the others are still reported, without an input)
        order = sorted(failed, key=lambda h: res[h]['time'] or 1e9)
        chosen = order[:6]

        def pb_one(h):
            try:
                r2, _, _ = kani.run_kani(crate, [h], jobs=1, timeout=1800, playback=True)
                return h, (r2.get(h) or {}).get('playback') or []
            except Inconclusive:
                return h, []
        pbs = {}
        with ThreadPoolExecutor(max_workers=6) as ex:
            for h, pb in ex.map(pb_one, chosen):
                pbs[h] = pb
        for h in failed:
            out['failures'].append({'harness': h, 'failed_checks': res[h]['failed'], 'playback': pbs.get(h, []),
                                    'playback_attempted': h in chosen, 'raw': res[h]['raw'][-3000:]})
    return out


def run_native_part(tier, binary):
    plan = native_plan(tier)
    out = {'results': {}, 'failures': [], 'wall_s': 0.0}
    t0 = time.time()

    def one(p):
        h, alph, bounded, desc = p
        return h, kani.native_exhaust(binary, h, alph), bounded, desc
    with ThreadPoolExecutor(max_workers=8) as ex:
        for h, r, bounded, desc in ex.map(one, plan):
            out['results'][h] = dict(r, bounded=bounded, domain=desc)
            for f in r['failures']:
                out['failures'].append({'harness': h, 'obligation': f['obligation'], 'input': f['input'], 'bounded': bounded})
    out['wall_s'] = time.time() - t0
    return out


def run_unit(tier):
    """Runs the three back ends concurrently and merges the outcome."""
    t0 = time.time()
    crate = kani.instantiate('lawcheck')
    with ThreadPoolExecutor(max_workers=4) as ex:
        fv = ex.submit(run_verus_part)
        fs = ex.submit(run_verus_part, build_set_unit)
        fk = ex.submit(run_kani_part, tier, None, crate)
        binary, build_s = kani.build_native(crate, 'lawcheck')
        fn = ex.submit(run_native_part, tier, binary)
        v = fv.result()
        sv = fs.result()
        k = fk.result()
        n = fn.result()
    return {'verus': v, 'verus_set': sv, 'kani': k, 'native': n, 'binary': binary, 'wall_s': time.time() - t0}


def companions(vf):
    cands = []
    for pat, hs in CEX_MAP:
        if re.search(pat, vf['container']):
            cands += hs
    return cands


def companions_all_passed(vf, unit):
    """True iff this impl has companion Kani harnesses (complete for their instantiation), at least one of them ran in
    this run and every one that ran verified.  A failed generic Verus obligation is then a lost PROOF, not a
    demonstrated violation: the impl is parametric in its type arguments and behaves correctly on the full domain
    of the instantiation -> inconclusive, never an alarm."""
    cands = companions(vf)
    res = unit['kani']['results']
    ran = [h for h in cands if h in res and res[h]['status'] is not None]
    nres = unit['native']['results']
    nran = [h for h in cands if h in nres]
    if not ran and not nran:
        return False
    return all(res[h]['status'] == 'SUCCESSFUL' for h in ran) and all(not nres[h]['failures'] for h in nran)


def find_cex_for_verus_failure(vf, unit):
    """A failing input for a failed Verus obligation, taken from the harnesses of the same impl and
    replayed on the real code.  Returns dict or None."""
    cands = companions(vf)
    # 0. failures already found by the native exhaustive runs of this unit
    for nf in unit['native']['failures']:
        if nf['harness'] in cands:
            rp = kani.native_replay(unit['binary'], nf['harness'], nf['input'])
            if rp['failed']:
                return {'source': 'native exhaustive run', 'harness': nf['harness'], 'input_bytes': nf['input'], 'replay_failed': rp['failed'],
                        'replay_stdout': rp['stdout']}
    # 1. Kani counterexamples of those harnesses
    for kf in unit['kani']['failures']:
        if kf['harness'] in cands:
            for pb in kf['playback']:
                bytes_ = [v[0] if len(v) == 1 else v for v in pb['vals']]
                flat = []
                for v in pb['vals']:
                    flat += v
                rp = kani.native_replay(unit['binary'], kf['harness'], flat)
                if rp['failed']:
                    return {'source': 'kani counterexample', 'harness': kf['harness'], 'input_bytes': flat, 'replay_failed': rp['failed'],
                            'replay_stdout': rp['stdout']}
    # 2. small native enumeration (search aid only)
    for h in cands:
        for width, alpha in ((6, '0,1,2,255'), (9, '0,1,2'), (12, '0,1')):
            try:
                r = kani.native_exhaust(unit['binary'], h, ';'.join([alpha] * width), timeout=300)
            except Inconclusive:
                continue
            if r['failures']:
                f = r['failures'][0]
                rp = kani.native_replay(unit['binary'], h, f['input'])
                if rp['failed']:
                    return {'source': 'native enumeration', 'harness': h, 'input_bytes': f['input'], 'replay_failed': rp['failed'],
                            'replay_stdout': rp['stdout']}
    return None
