"""C09 (packaging variants are transparent): two library kernels only -- `run_rule` (segment-codegen wrapper) under a Verus
contract and `dedup_all_keep_last_by` (a later re-declaration wins) as a bounded stand-in."""
from . import common, unit_index, unit_kernels
from .extract import LostAnchor
from .report import Outcome
from .prop_index import TRUSTED


def run(pid, tier):
    out = Outcome(pid, tier, 'other')
    cov = {}
    try:
        from . import kani
        crate_i = kani.instantiate('idxcheck')
        ibin, _ = kani.build_native(crate_i, 'idxcheck')
        plan = [p for p in unit_index.native_plan(tier) if p[0] == 'forwarders_native'][0]
        nat = kani.native_exhaust(ibin, plan[0], plan[1])
        rr_native_fail = [f for f in nat['failures'] if f['obligation'].startswith('run_rule')]
        for f in rr_native_fail:
            out.violation('native::forwarders_native::%s' % f['obligation'], 'native execution of the real function', 'obligation %s failed for input bytes %s' % (f['obligation'], f['input']),
                          failing_input={'crate': 'idxcheck', 'harness': 'forwarders_native', 'bytes': f['input'], 'failed_on_real_code': [f['obligation']]})
        cov['native_run_rule_cross_check'] = {'evaluated': nat['evaluated'], 'failures': len(rr_native_fail)}
        v = unit_index.run_verus_part()
        if v['inconclusive']:
            if not rr_native_fail:
                out.proof_lost.append('verus could not process the index unit that carries the run_rule contract (%s); the native cross-check of run_rule passed'
                                      % v['inconclusive'].strip().split('\n')[0][:300])
            else:
                out.inconclusive.append('verus: ' + v['inconclusive'])
        for f in v['failures']:
            if f['fn'] == 'run_rule':
                out.violation(f['obligation'], 'verus', f['verifier_output'])
        rr = [f for f in v['functions'] if f[0].endswith('run_rule')]
        cov['verus_run_rule'] = {'functions': [[f[0], f[2]] for f in rr], 'unit': v['path']}
        n_ob = len(rr)
        n_ok = sum(1 for f in rr if f[2])
        if not rr and not v['inconclusive'] and not out.proof_lost:
            out.inconclusive.append('run_rule was not verified (function missing from the Verus result)')
    except (common.Inconclusive, LostAnchor) as ex:
        out.inconclusive.append('index unit (run_rule): %s' % ex)
        n_ob = n_ok = 0
    try:
        kr = unit_kernels.run_kernels(tier, {'dedup'})
        for f in kr['failures']:
            out.violation('kernels::dedup_all_keep_last_by::%s' % f['obligation'], 'exhaustive native execution of the function extracted verbatim from /repo',
                          'obligation %s failed' % f['obligation'], failing_input={'kernel': 'dedup_all_keep_last_by', 'input': f['input'], 'cmd': f['cmd']})
        cov['bounded_dedup'] = kr['results']
        evals = kr['results']['dedup']['evaluated']
    except (common.Inconclusive, LostAnchor) as ex:
        out.inconclusive.append('dedup kernel: %s' % ex)
        evals = 0
    out.coverage = dict({
        'explanation': 'C09 is macro plumbing (ascent_run!, include_source!, initialisers, attributes, generics): token generation, outside contract-based verification. '
                       'Two kernels it names are in reach: (a) ascent::internal::run_rule(f) -- Verus contract "requires f.requires(()) ensures f.ensures((), r)": the wrapper '
                       'calls f exactly once and returns its result, with or without segment-codegen (the feature only changes an inline attribute, dropped by R3); '
                       '(b) utils::dedup_all_keep_last_by, extracted verbatim: BOUNDED exhaustive execution of its contract (subsequence, no two equal, every class survives, '
                       'LAST occurrence survives = "a later re-declaration of a relation wins").',
        'obligations': n_ob, 'discharged': n_ok,
        'checker_cmd': 'verus <index unit> ; kernels dedup <len> <alphabet>',
        'trusted_base': TRUSTED,
        'evaluations': evals,
        'distinct_nontrivial': max(evals - 2, 0),
        'rule': 'every vector over the alphabet up to the length bound x two equivalence relations; non-trivial = all but the empty vector',
        'exhaustive': True,
        'samples': [{'dedup': 'vec=[1,2,2,3,1] relation=eq -> survivors at positions [2,3,4]'}, {'verus_obligation': 'fn run_rule :: ensures f.ensures((), r)'}],
    }, **cov)
    out.assumptions = list(TRUSTED) + [
        'C09 PARTIAL: only run_rule and dedup_all_keep_last_by; ascent_run!/include_source!/initialisers/attributes/generic signatures are NOT covered',
        'dedup_all_keep_last_by: BOUNDED (length <= 7/9 over 3 values)',
        'where dedup_all_keep_last_by is called from (ascent_hir.rs) and with which comparison is not checked',
    ]
    return out.finish()
