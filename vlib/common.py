import hashlib
import json
import os
import re
import shutil
import subprocess
import sys
import time

VERIF = os.path.dirname(os.path.dirname(os.path.abspath(__file__)))
REPO = os.environ.get('VERIF_REPO', '/repo')
WORK = os.environ.get('VERIF_WORK', os.path.join(VERIF, '.work'))
# evidence / replays of runs against a scratch copy (self-test, VERIF_REPO set) never overwrite the real ones
_SCRATCH_RUN = os.path.realpath(REPO) != '/repo'
EVIDENCE_DIR = os.environ.get('VERIF_EVIDENCE_DIR', os.path.join(WORK, 'evidence') if _SCRATCH_RUN else os.path.join(VERIF, 'evidence'))
REPLAY_DIR = os.environ.get('VERIF_REPLAY_DIR', os.path.join(WORK, 'replays') if _SCRATCH_RUN else os.path.join(VERIF, 'replays'))
KNOWN_FINDINGS = os.path.join(VERIF, 'known-findings.txt')

OFFLINE_ENV = {'CARGO_NET_OFFLINE': 'true', 'GOPROXY': 'off', 'PIP_NO_INDEX': '1'}


class Inconclusive(Exception):
    """Tooling could not decide (lost anchor, unsupported construct, timeout, crash): exit 2."""


def env(extra=None):
    e = dict(os.environ)
    e.update(OFFLINE_ENV)
    if extra:
        e.update(extra)
    return e


def run(cmd, cwd=None, timeout=None, extra_env=None, stdin=None):
    t0 = time.time()
    try:
        p = subprocess.run(cmd, cwd=cwd, env=env(extra_env), stdout=subprocess.PIPE, stderr=subprocess.PIPE,
                           timeout=timeout, text=True, input=stdin)
        return p.returncode, p.stdout, p.stderr, time.time() - t0
    except subprocess.TimeoutExpired as ex:
        so = ex.stdout.decode() if isinstance(ex.stdout, bytes) else (ex.stdout or '')
        se = ex.stderr.decode() if isinstance(ex.stderr, bytes) else (ex.stderr or '')
        return -9, so, se + '\n[timeout after %ss]' % timeout, time.time() - t0


def tree_hash(paths):
    h = hashlib.sha256()
    for root in paths:
        if os.path.isfile(root):
            h.update(root.encode())
            h.update(open(root, 'rb').read())
            continue
        for d, dirs, files in sorted(os.walk(root)):
            dirs[:] = sorted(x for x in dirs if x not in ('target', '.git'))
            for f in sorted(files):
                p = os.path.join(d, f)
                h.update(p.encode())
                try:
                    h.update(open(p, 'rb').read())
                except OSError:
                    pass
    return h.hexdigest()[:16]


CRATE_DIRS = {
    'ascent_base': 'ascent_base',
    'ascent': 'ascent',
    'ascent_macro': 'ascent_macro',
    'ascent-byods-rels': 'byods/ascent-byods-rels',
}


def expand_crate(crate, features=None):
    """rustc's own macro-expanded rendering of a /repo crate (the code that runs), cached by source hash."""
    os.makedirs(os.path.join(WORK, 'expanded'), exist_ok=True)
    srcdirs = [os.path.join(REPO, CRATE_DIRS[crate]), os.path.join(REPO, 'Cargo.toml')]
    if crate != 'ascent_base':
        srcdirs.append(os.path.join(REPO, 'ascent_base'))
    hsh = tree_hash(srcdirs)
    out = os.path.join(WORK, 'expanded', '%s.%s.rs' % (crate, hsh))
    if os.path.exists(out) and os.path.getsize(out) > 0:
        return open(out).read(), 0.0
    # the lock file is needed for --offline resolution; /repo carries one (untracked) -- never modify it
    tdir = os.path.join(WORK, 'target-expand')
    cmd = ['cargo', '+nightly', 'rustc', '-p', crate, '--offline', '--profile', 'check', '--lib']
    if features:
        cmd += ['--features', features]
    cmd += ['--', '-Zunpretty=expanded']
    rc, so, se, dt = run(cmd, cwd=REPO, timeout=900, extra_env={'CARGO_TARGET_DIR': tdir})
    if rc != 0 or not so.strip():
        raise Inconclusive('macro expansion of %s failed (rc=%s):\n%s' % (crate, rc, se[-3000:]))
    with open(out, 'w') as f:
        f.write(so)
    return so, dt


# ---------------------------------------------------------------------------------------------
# Verus

def run_verus(path, timeout=600, extra=None):
    cmd = ['verus', path, '--output-json', '--time-expanded', '--multiple-errors', '20']
    if extra:
        cmd += extra
    rc, so, se, dt = run(cmd, cwd=os.path.dirname(path), timeout=timeout)
    res = {'rc': rc, 'stderr': se, 'wall_s': dt, 'json': None}
    try:
        i = so.index('{')
        res['json'] = json.loads(so[i:])
    except Exception:
        res['json'] = None
    return res


VIOLATION_MARKERS = [
    'postcondition not satisfied', 'assertion failed', 'precondition not satisfied',
    'invariant not satisfied', 'decreases not satisfied', 'possible arithmetic underflow/overflow',
    'possible division by zero', 'index out of bounds', 'unreachable', 'loop invariant',
    'recommendation not met', 'could not prove termination', 'possible bit shift underflow/overflow',
]
INCONCLUSIVE_MARKERS = [
    'not supported', 'not yet supported', 'unsupported', 'rlimit', 'Resource limit', 'timed out', 'panicked at',
    'error[E', 'expected one of', 'cannot find', 'unresolved', 'mismatched types', 'ill-typed AIR',
    'The verifier does not yet support', 'internal error',
]


def split_verus_errors(stderr):
    """Split rustc-style diagnostics into individual error blocks."""
    blocks = []
    cur = None
    for ln in stderr.split('\n'):
        if re.match(r'^(error|warning|note)(\[[A-Z0-9]+\])?:', ln):
            if cur:
                blocks.append(cur)
            cur = [ln]
        elif cur is not None:
            cur.append(ln)
    if cur:
        blocks.append(cur)
    return ['\n'.join(b) for b in blocks]


def classify_verus(res, canary=None):
    """Returns (status, failures, inconclusive_reason).
    status in {'ok','violation','inconclusive'}; failures = list of dicts(kind, line, text).
    With canary='<fn name>': the file contains a deliberately false proof fn; it must be the subject of
    exactly one failure (vacuity guard) and is then removed from the failures."""
    j = res['json']
    se = res['stderr']
    if res['rc'] == -9:
        return 'inconclusive', [], 'verus timed out'
    blocks = [b for b in split_verus_errors(se) if b.startswith('error')]
    fails = []
    incon = []
    for b in blocks:
        first = b.split('\n', 1)[0]
        if first.startswith('error: aborting due to'):
            continue
        kind = None
        for m in VIOLATION_MARKERS:
            if m in first:
                kind = m
                break
        if kind and not any(x in b for x in ('rlimit', 'Resource limit')):
            locs = re.findall(r'-->\s*([^:\s]+):(\d+):(\d+)', b)
            # the primary location may lie in vstd (e.g. the spec of PartialOrd::partial_cmp): keep the file name
            fails.append({'kind': kind, 'line': int(locs[0][1]) if locs else None, 'file': locs[0][0] if locs else None, 'text': b})
        else:
            incon.append(b)
    if incon:
        return 'inconclusive', fails, '\n'.join(incon)[:6000]
    vr = (j or {}).get('verification-results') if j else None
    if vr is None:
        return 'inconclusive', fails, 'verus produced no result: rc=%s\n%s' % (res['rc'], se[-2000:])
    if canary:
        cf = [f for f in fails if canary in f['text']]
        if len(cf) != 1:
            return 'inconclusive', fails, ('vacuity canary %s did not fail exactly once (%d): the unit may be inconsistent '
                                           '(an assumed contract proves false)' % (canary, len(cf)))
        fails = [f for f in fails if canary not in f['text']]
        expected_errors = 1
    else:
        expected_errors = 0
    if not fails:
        if vr.get('errors') == expected_errors and vr.get('verified', 0) > 0 and not vr.get('encountered-vir-error'):
            return 'ok', [], None
        return 'inconclusive', [], 'verus reported errors that were not classified: %s\n%s' % (vr, se[-2000:])
    return 'violation', fails, None


def confirm_failures_in_isolation(path, res, fails, canary='__vacuity_canary', cap=12):
    """Guards against proof instability: when one function of a unit fails, the SMT context of the functions verified after
    it differs and a brittle (quantifier-instantiation dependent) proof can fail although it verifies on its own.  Every
    failing function is therefore re-verified ALONE (`--verify-root --verify-function`); only failures that persist are kept.
    Returns (confirmed_failures, dropped_function_names, notes)."""
    failing = [f[0] for f in verus_functions(res) if f[2] is False and canary not in f[0]]
    if not failing or len(failing) > cap:
        return fails, [], []
    confirmed, dropped, notes = [], [], []
    unit = os.path.splitext(os.path.basename(path))[0]
    for name in failing:
        short = name[len(unit) + 2:] if name.startswith(unit + '::') else name
        r2 = run_verus(path, timeout=600, extra=['--verify-root', '--verify-function', short])
        st2, f2, why2 = classify_verus(r2)
        if st2 == 'ok':
            dropped.append(name)
            notes.append('%s failed only in the context of another failing function and verifies in isolation: not a violation' % name)
        elif st2 == 'violation':
            confirmed += f2
        else:
            # could not be re-verified alone (e.g. the name does not select a unique function): keep what the full run said
            return fails, [], ['isolation re-verification of %s was not possible (%s); full-run failures kept' % (name, (why2 or '')[:200])]
    return confirmed, dropped, notes


def stability_sweep(path, seeds=(1, 2, 3), canary='__vacuity_canary'):
    """Thorough tier: re-verify a unit under different SMT seeds; a proof that only goes through for some seeds is a latent
    source of inconclusive results or false alarms.  Informational (reported in the evidence)."""
    out = []
    for sd in seeds:
        r = run_verus(path, timeout=900, extra=['--smt-option', 'smt.random_seed=%d' % sd, '--smt-option', 'sat.random_seed=%d' % sd])
        st, fails, why = classify_verus(r, canary=canary)
        vr = (r['json'] or {}).get('verification-results') or {}
        out.append({'seed': sd, 'status': st, 'verified': vr.get('verified'), 'wall_s': round(r['wall_s'], 1),
                    'failing': [f['text'].split('\n')[0] for f in fails][:5]})
    return out


def verus_functions(res):
    """[(function, mode, success, micros)] from the smt function breakdown."""
    out = []
    j = res['json'] or {}
    try:
        for m in j['times-ms']['smt']['smt-run-module-times']:
            for f in m.get('function-breakdown', []):
                out.append((f['function'], f.get('mode:'), f.get('success'), f.get('time-micros', 0)))
    except Exception:
        pass
    return out


# ---------------------------------------------------------------------------------------------
# reporting

def load_known_findings():
    known, fixed = [], []
    if os.path.exists(KNOWN_FINDINGS):
        for ln in open(KNOWN_FINDINGS):
            ln = ln.strip()
            if not ln or ln.startswith('#'):
                continue
            if ln.startswith('fixed:'):
                fixed.append(ln)
            elif ln.startswith('known:'):
                m = re.match(r'known:\s*property=(\S+)\s+obligation=(\S+)\s+(.*)$', ln)
                if m:
                    known.append({'property': m.group(1), 'obligation': m.group(2), 'what': m.group(3)})
    return known, fixed


def write_evidence(pid, tier, level, coverage, assumptions, wall_s, violations):
    os.makedirs(EVIDENCE_DIR, exist_ok=True)
    ev = {
        'property_id': pid,
        'tier': tier,
        'seed': int(os.environ.get('VERIF_SEED', '0') or 0),
        'level': level,
        'coverage': coverage,
        'assumptions': assumptions,
        'wall_s': round(wall_s, 2),
        'violations': violations,
    }
    with open(os.path.join(EVIDENCE_DIR, pid + '.json'), 'w') as f:
        json.dump(ev, f, indent=1)
    return ev


def write_replay(pid, obligation, body):
    d = os.path.join(REPLAY_DIR, pid)
    os.makedirs(d, exist_ok=True)
    safe = re.sub(r'[^A-Za-z0-9_.-]+', '_', obligation)[:150]
    p = os.path.join(d, safe + '.txt')
    with open(p, 'w') as f:
        f.write(body)
    return p
