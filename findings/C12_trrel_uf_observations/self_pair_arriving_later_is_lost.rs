use ascent::ascent;
use std::collections::BTreeSet;
ascent! {
   struct T;
   relation tick(u32);
   #[ds(ascent_byods_rels::trrel_uf)]
   relation tr(u32, u32);
   relation refl(u32);
   relation all(u32, u32);
   tick(0);
   tick(n + 1) <-- tick(n), if *n < 5;
   tr(1, 3) <-- tick(0);
   tr(0, 0) <-- tick(2);
   refl(x) <-- tr(x, x);
   all(x, y) <-- tr(x, y);
   tick(99) <-- refl(_), all(_, _), if false;
}
ascent! {
   struct P;
   relation tick(u32);
   relation tr(u32, u32);
   relation refl(u32);
   relation all(u32, u32);
   tick(0);
   tick(n + 1) <-- tick(n), if *n < 5;
   tr(1, 3) <-- tick(0);
   tr(0, 0) <-- tick(2);
   tr(x, x) <-- tr(x, _);
   tr(y, y) <-- tr(_, y);
   tr(x, z) <-- tr(x, y), tr(y, z);
   refl(x) <-- tr(x, x);
   all(x, y) <-- tr(x, y);
   tick(99) <-- refl(_), all(_, _), if false;
}
#[test]
fn t() {
   let mut t = T::default(); t.run();
   let mut p = P::default(); p.run();
   println!("{}", T::summary());
   println!("tagged refl {:?} all {:?}", t.refl.iter().cloned().collect::<BTreeSet<_>>(), t.all.iter().cloned().collect::<BTreeSet<_>>());
   println!("plain  refl {:?} all {:?}", p.refl.iter().cloned().collect::<BTreeSet<_>>(), p.all.iter().cloned().collect::<BTreeSet<_>>());
   assert_eq!(t.refl.iter().cloned().collect::<BTreeSet<_>>(), p.refl.iter().cloned().collect::<BTreeSet<_>>());
   assert_eq!(t.all.iter().cloned().collect::<BTreeSet<_>>(), p.all.iter().cloned().collect::<BTreeSet<_>>());
}
