use ascent::ascent;
ascent! {
   struct T;
   #[ds(ascent_byods_rels::trrel_uf)]
   relation tr(u32, u32, u32);
   relation foo(u32, u32);
   relation res(u32);
   foo(1, 2);
   res(k) <-- tr(k, a, b), foo(a, b);
}
#[test]
fn t() { let mut t = T::default(); t.run(); println!("res {:?}", t.res); }
