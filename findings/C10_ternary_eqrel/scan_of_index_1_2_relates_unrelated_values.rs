use ascent::ascent;
use std::collections::BTreeSet;

ascent! {
   struct T;
   #[ds(ascent_byods_rels::eqrel)]
   relation eq(u32, u32, u32);
   relation foo(u32, u32);
   relation res(u32);
   eq(0, 1, 1);
   eq(0, 2, 2);
   foo(1, 2);
   res(k) <-- eq(k, a, b), foo(a, b);
}
ascent! {
   struct P;
   relation eq(u32, u32, u32);
   relation foo(u32, u32);
   relation res(u32);
   eq(0, 1, 1);
   eq(0, 2, 2);
   foo(1, 2);
   eq(k, b, a) <-- eq(k, a, b);
   eq(k, a, c) <-- eq(k, a, b), eq(k, b, c);
   res(k) <-- eq(k, a, b), foo(a, b);
}
#[test]
fn t() {
   let mut t = T::default(); t.run();
   let mut p = P::default(); p.run();
   println!("tagged res: {:?}", t.res.iter().cloned().collect::<BTreeSet<_>>());
   println!("plain  res: {:?}", p.res.iter().cloned().collect::<BTreeSet<_>>());
   println!("{}", T::summary());
   assert_eq!(t.res.iter().cloned().collect::<BTreeSet<_>>(), p.res.iter().cloned().collect::<BTreeSet<_>>());
}
