use ascent::ascent;
use std::collections::BTreeSet;

ascent! {
   struct Tagged;
   relation step(u32);
   #[ds(ascent_byods_rels::eqrel)]
   relation eq(u32, u32, u32);
   relation out(u32, u32, u32);

   step(0);
   step(n + 1) <-- step(n), if *n < 6;
   eq(1, 10, 11) <-- step(0);
   eq(1, 11, 12) <-- step(3);
   out(k, a, b) <-- eq(k, a, b);
}

ascent! {
   struct Plain;
   relation step(u32);
   relation eq(u32, u32, u32);
   relation out(u32, u32, u32);

   step(0);
   step(n + 1) <-- step(n), if *n < 6;
   eq(1, 10, 11) <-- step(0);
   eq(1, 11, 12) <-- step(3);
   eq(k, a, a) <-- eq(k, a, _);
   eq(k, b, b) <-- eq(k, _, b);
   eq(k, b, a) <-- eq(k, a, b);
   eq(k, a, c) <-- eq(k, a, b), eq(k, b, c);
   out(k, a, b) <-- eq(k, a, b);
}

#[test]
fn ternary_key_pauses_and_resumes() {
   let mut t = Tagged::default();
   t.run();
   let mut p = Plain::default();
   p.run();
   let a: BTreeSet<_> = t.out.iter().cloned().collect();
   let b: BTreeSet<_> = p.out.iter().cloned().collect();
   println!("tagged: {:?}", a);
   println!("plain:  {:?}", b);
   assert_eq!(a, b);
}
