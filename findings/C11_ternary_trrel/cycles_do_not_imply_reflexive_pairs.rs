use ascent::ascent;
use std::collections::BTreeSet;
ascent! {
   struct T;
   #[ds(ascent_byods_rels::trrel)]
   relation tr(u32, u32);
   relation m(u32, u32);
   tr(1, 2);
   tr(2, 1);
   m(x, y) <-- tr(x, y);
}
ascent! {
   struct T1;
   #[ds(ascent_byods_rels::trrel)]
   relation tr(u32, u32);
   relation seed(u32, u32);
   relation m(u32, u32);
   seed(1, 2); seed(2, 1);
   tr(x, y) <-- seed(x, y);
   m(x, y) <-- tr(x, y);
}
#[test]
fn t() {
   // the transitive closure of {(1,2),(2,1)}, as the rule tr(x,z) <-- tr(x,y), tr(y,z) computes it
   let want: BTreeSet<(u32, u32)> = [(1, 1), (1, 2), (2, 1), (2, 2)].into_iter().collect();
   let mut t = T::default(); t.run();
   println!("two facts:  {:?}", t.m.iter().cloned().collect::<BTreeSet<_>>());
   assert_eq!(t.m.iter().cloned().collect::<BTreeSet<_>>(), want);
   let mut t = T1::default(); t.run();
   println!("one rule:   {:?}", t.m.iter().cloned().collect::<BTreeSet<_>>());
   assert_eq!(t.m.iter().cloned().collect::<BTreeSet<_>>(), want);
}
