use ascent::ascent;
use std::collections::BTreeSet;

// facts for key 0 arrive over several iterations of ONE recursive stratum (tick drives them); tr is read in that
// stratum with the third column bound, the second column bound, both, none
ascent! {
   struct T;
   relation tick(u32);
   #[ds(ascent_byods_rels::trrel)]
   relation tr(u32, u32, u32);
   relation probe3(u32);
   relation probe2(u32);
   relation by3(u32, u32, u32);
   relation by2(u32, u32, u32);
   relation all(u32, u32, u32);

   tick(0);
   tick(n + 1) <-- tick(n), if *n < 6;
   tr(0, 1, 2) <-- tick(0);
   tr(0, 0, 1) <-- tick(2);
   tr(0, 2, 3) <-- tick(4);
   probe3(2); probe3(3);
   probe2(0); probe2(1);
   by3(k, x, z) <-- probe3(z), tr(k, x, z);
   by2(k, x, z) <-- probe2(x), tr(k, x, z);
   all(k, x, z) <-- tr(k, x, z);
   // keep everything in one stratum
   tick(99) <-- by3(_, _, _), by2(_, _, _), all(_, _, _), if false;
}
ascent! {
   struct P;
   relation tick(u32);
   relation tr(u32, u32, u32);
   relation probe3(u32);
   relation probe2(u32);
   relation by3(u32, u32, u32);
   relation by2(u32, u32, u32);
   relation all(u32, u32, u32);

   tick(0);
   tick(n + 1) <-- tick(n), if *n < 6;
   tr(0, 1, 2) <-- tick(0);
   tr(0, 0, 1) <-- tick(2);
   tr(0, 2, 3) <-- tick(4);
   tr(k, x, z) <-- tr(k, x, y), tr(k, y, z);
   probe3(2); probe3(3);
   probe2(0); probe2(1);
   by3(k, x, z) <-- probe3(z), tr(k, x, z);
   by2(k, x, z) <-- probe2(x), tr(k, x, z);
   all(k, x, z) <-- tr(k, x, z);
   tick(99) <-- by3(_, _, _), by2(_, _, _), all(_, _, _), if false;
}
fn set(v: &[(u32, u32, u32)]) -> BTreeSet<(u32, u32, u32)> { v.iter().cloned().collect() }
#[test]
fn t() {
   let mut t = T::default(); t.run();
   let mut p = P::default(); p.run();
   println!("{}", T::summary());
   println!("tagged all {:?}\nplain  all {:?}", set(&t.all), set(&p.all));
   println!("tagged by3 {:?}\nplain  by3 {:?}", set(&t.by3), set(&p.by3));
   println!("tagged by2 {:?}\nplain  by2 {:?}", set(&t.by2), set(&p.by2));
   assert_eq!(set(&t.all), set(&p.all));
   assert_eq!(set(&t.by3), set(&p.by3));
   assert_eq!(set(&t.by2), set(&p.by2));
}
