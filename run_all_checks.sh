#!/bin/bash
# Runs every claimed check on the unchanged tree (tier from $1, default quick), validates MANIFEST + evidence.
cd /verif
TIER=${1:-quick}
git -C /repo status --porcelain --untracked-files=no | grep . && { echo "/repo has uncommitted changes"; exit 2; }
rc=0
for p in C01 C03 C04 C05 C09 C10 C11 C12 C16 C17 C18 C19; do
  ./check $p --tier $TIER; r=$?; echo "  -> $p exit $r"; [ $r -ne 0 ] && rc=1
done
python3-vt tools_validate.py || rc=1
exit $rc
