#!/usr/bin/env python3
"""Self-test: applies each catalogued change to a scratch copy of /repo and runs the named check on it.
Breaking changes must give exit 1 (VIOLATION), harmless refactors exit 0.  Usage: run.py [name ...] [--tier quick]"""
import json, os, subprocess, sys, shutil, time
HERE = os.path.dirname(os.path.abspath(__file__))
SCR = os.environ.get('VERIF_SCRATCH', '/var/tmp/ascent-verif-scratch')
cat = json.load(open(os.path.join(HERE, 'mutants.json')))
names = [a for a in sys.argv[1:] if not a.startswith('--')]
tier = 'quick'
if '--tier' in sys.argv: tier = sys.argv[sys.argv.index('--tier') + 1]
subprocess.run(['rsync', '-rlp', '--checksum', '--delete', '--exclude', 'target', '--exclude', '.git', '--exclude', '.verif-work', '/repo/', SCR + '/'], check=True)
results = []
for m in cat:
    if names and m['name'] not in names: continue
    p = os.path.join(SCR, m['file'])
    orig = open(p).read()
    if m['old'] not in orig:
        print('SKIP %s: anchor text not found' % m['name']); results.append((m['name'], 'anchor-missing')); continue
    open(p, 'w').write(orig.replace(m['old'], m['new'], 1))
    try:
        for prop in m['properties']:
            t0 = time.time()
            r = subprocess.run([os.path.join(HERE, '..', 'check'), prop, '--tier', tier], env=dict(os.environ, VERIF_REPO=SCR, VERIF_WORK=os.path.join(SCR, '.verif-work')), capture_output=True, text=True)
            want = 1 if m['kind'] == 'breaking' else 0
            ok = r.returncode == want
            first = (r.stdout.strip().split('\n') or [''])[0][:200].replace('FAILED-OBLIGATION', 'VIOLATION')
            print('%s %-28s %s rc=%d (want %d) %.0fs  %s' % ('PASS' if ok else 'FAIL', m['name'], prop, r.returncode, want, time.time() - t0, first))
            if not ok: print(r.stdout[-1500:], r.stderr[-1500:])
            results.append((m['name'], prop, r.returncode, want))
    finally:
        open(p, 'w').write(orig)
if not os.environ.get('VERIF_KEEP_SCRATCH'):
    shutil.rmtree(SCR, ignore_errors=True)
bad = [r for r in results if len(r) == 4 and r[2] != r[3]]
print('%d runs, %d unexpected' % (len(results), len(bad)))
sys.exit(1 if bad else 0)
