#!/usr/bin/env python3
"""summarize.py <log>...: writes selftest/RESULTS.md from the output of selftest/run.py (later logs override earlier ones)."""
import json, os, re, sys
HERE = os.path.dirname(os.path.abspath(__file__))
cat = {x['name']: x for x in json.load(open(os.path.join(HERE, 'mutants.json')))}
rows = {}
for f in sys.argv[1:]:
    for l in open(f):
        m = re.match(r'(PASS|FAIL)\s+(\S+)\s+(C\d+) rc=(\d) \(want (\d)\)\s+(\d+)s\s*(.*)', l)
        if m:
            st, name, prop, rc, want, secs, rest = m.groups()
            ob = ''
            mo = re.search(r'obligation="([^"]*)', rest)
            if mo:
                ob = mo.group(1)[:120]
            rows[(name, prop)] = (rc, want, ob)
out = ['# Self-test results (selftest/run.py on scratch copies of /repo, quick tier)', '',
       'Breaking changes compile and pass the 61 existing tests; expected exit 1 (VIOLATION). Harmless refactors: expected exit 0.',
       'Exit 2 on a harmless refactor means the refactored code left the subset the verifier accepts (inconclusive, never an alarm).', '',
       '| change | kind | file | check | exit (want) | first reported obligation |', '|---|---|---|---|---|---|']
order = list(cat)
for (name, prop), (rc, want, ob) in sorted(rows.items(), key=lambda kv: (order.index(kv[0][0]) if kv[0][0] in order else 999, kv[0][1])):
    c = cat.get(name, {})
    flag = '' if rc == want else (' inconclusive' if rc == '2' else ' **UNEXPECTED**')
    out.append('| %s | %s | %s | %s | %s (%s)%s | %s |' % (name, c.get('kind', '?'), c.get('file', '?'), prop, rc, want, flag, ob.replace('|', '/')))
missing = [n for n in order if not any(k[0] == n for k in rows)]
if missing:
    out += ['', 'Not run in these logs: ' + ', '.join(missing)]
n_bad = sum(1 for (rc, want, ob) in rows.values() if rc != want)
out += ['', '%d runs, %d with an exit code other than the expected one.' % (len(rows), n_bad)]
open(os.path.join(HERE, 'RESULTS.md'), 'w').write('\n'.join(out) + '\n')
print(len(rows), 'rows,', n_bad, 'unexpected')
